"""C20 — package database iteration and metadata tables (structural clauses)."""
from lib import *

EXPLANATION = (
    "D1 MetadataEntry::to_filename / from_filename are mutually inverse tables over the 14 '+' files (from_filename as a match on literals, or as a search of a literal table of variants for the one whose to_filename equals the name); "
    "D2 is_valid_pkgdir requires exactly +COMMENT,+CONTENTS,+DESC (files rejected first), Metadata::is_valid tests exactly comment/contents/desc, read_metadata stores each entry in the field of the same name; "
    "D3 PkgDB::next splits the directory name at the LAST '-' and stores prefix->pkgbase, suffix->pkgversion, whole->pkgname; "
    "D4 single pass: read_dir is called by open() only and next() only borrows the stored handle; iteration skeleton: invalid directories continue, a valid one returns one Some(Ok), Package::read_metadata joins its own path with to_filename(entry); is_valid as a loop over a literal table of (field, message) is walked element by element by the evaluator and judged like the if-chain")
NOT_DECIDED = [
    "file-system enumeration semantics ('each once' is ReadDir's contract)",
    "content equality of fs::read_to_string",
]
CONFIG_SENSITIVE = False
DESUGAR = True

ME = "metadata::MetadataEntry"
TOF = "metadata::MetadataEntry::to_filename"
FROMF = "metadata::MetadataEntry::from_filename"
NEXT = "<pkgdb::PkgDB as std::iter::Iterator>::next"


def run(ctx):
    fx = ctx.fx
    sp = spec("metadata_files.json")
    files = sp["files"]

    # ---- D1
    tof = {}
    for p in ret_paths(ctx.paths(TOF) or []):
        v = self_discr_variant(fx, p, ME, lambda t: strip_refs(t) == ("param", 1))
        if isinstance(v, str):
            tof[v] = const_str(p.end[1])
    fromf, default_none = {}, None
    for p in ret_paths(ctx.paths(FROMF) or []):
        pos, _ = true_str_lits(p)
        if not pos:
            # inverse lookup: the name is compared with to_filename(V) for literal variants V (a table of variants searched with find, or an
            # if-chain); to_filename(V) is the literal the D1-TO-FILENAME table gives for V
            for c in p.conds():
                q = inequality_fact(c)
                if q is None or q[2]:
                    continue
                for a, b in ((q[0], q[1]), (q[1], q[0])):
                    if is_call(a, TOF) and len(call_args(a)) == 1 and agg_variant(deval(call_args(a)[0])) and agg_variant(deval(call_args(a)[0]))[0] == ME:
                        lit = tof.get(agg_variant(deval(call_args(a)[0]))[1])
                        if lit is not None:
                            pos.append((lit, b))
        if pos:
            some = unwrap_some(p.end[1])
            a = agg_variant(some) if some else None
            fromf[pos[0][0]] = (a[1] if a and a[0] == ME else None, strip_refs(pos[0][1]) == ("param", 1))
        else:
            default_none = is_none(p.end[1])
    ctx.check(enum_variants(fx, ME) == [f["variant"] for f in files], "D1-ENUM", ME, "variants", "14 variants as in the spec",
              "MetadataEntry variants %s differ from the spec" % enum_variants(fx, ME))
    for f in files:
        ctx.check(tof.get(f["variant"]) == f["file"], "D1-TO-FILENAME", TOF, "variant=%s" % f["variant"], "%s -> %s" % (f["variant"], f["file"]),
                  "%s maps to %r, expected %r" % (f["variant"], tof.get(f["variant"]), f["file"]))
        got = fromf.get(f["file"])
        ctx.check(got is not None and got[0] == f["variant"] and got[1], "D1-FROM-FILENAME", FROMF, "file=%s" % f["file"], "%s -> %s" % (f["file"], f["variant"]),
                  "%r maps to %s, expected %s" % (f["file"], got and got[0], f["variant"]))
        back = fromf.get(tof.get(f["variant"]))
        ctx.check(back is not None and back[0] == f["variant"], "D1-INVERSE", ME, "variant=%s" % f["variant"], "from_filename(to_filename(v)) = v",
                  "from_filename(to_filename(%s)) = %s" % (f["variant"], back and back[0]))
    extra = sorted(set(fromf) - {f["file"] for f in files})
    ctx.check(not extra and default_none is True, "D1-FROM-FILENAME", FROMF, "default", "other names -> None",
              "from_filename accepts extra names %s or its default arm is not None" % extra)
    ctx.floor("D1-TO-FILENAME", TOF, "rows", len(tof), 14)
    ctx.floor("D1-FROM-FILENAME", FROMF, "rows", len(fromf), 14)

    # ---- D2 is_valid_pkgdir: not a plain file, and FOR ALL mandatory metadata files f: pkgdir.join(f).exists(); the quantifier is recognised as a
    #      for-loop with `return false` or as `.iter().all(..)` and checked on its normal form (lib.quantifier)
    IV = "pkgdb::PkgDB::is_valid_pkgdir"
    ps = ctx.paths(IV)
    if ps:
        body = ctx.body(IV)
        q = quantifier(ctx, IV, ps)
        unrolled = None
        if q is None:
            # the quantifier over a constant table of entries was walked element by element by the evaluator (or the tests are written out one by
            # one): every `true` path has tested pkgdir.join(<file of entry>).exists() for exactly the mandatory entries, all true
            def tested(p):
                out = {}
                for c in p.conds():
                    if is_call(c.term, "Path::exists") and isinstance(c.fact[1], bool):
                        j = strip_refs(call_args(c.term)[0])
                        while is_call(j, "Deref>::deref", "::as_path", "AsRef") and call_args(j):
                            j = strip_refs(call_args(j)[0])
                        if is_call(j, "Path::join") and strip_refs(call_args(j)[0]) == ("param", 2):
                            nm = strip_refs(call_args(j)[1])
                            ent = None
                            if is_call(nm, TOF):
                                a_ = agg_variant(strip_refs(resolve_promoted(ctx, strip_refs(call_args(nm)[0]))))
                                ent = a_[1] if a_ and a_[0] == ME else None
                            elif const_str(nm) is not None:
                                ent = next((f["variant"] for f in files if f["file"] == const_str(nm)), None)
                            if ent is None:
                                return None
                            out[ent] = c.fact[1]
                        else:
                            return None
                return out
            trues = [p for p in ret_paths(ps) if const_of(p.end[1]) is True]
            tt = [tested(p) for p in trues]
            if trues and all(t is not None for t in tt):
                unrolled = tt
        if unrolled is not None:
            okall = all(set(t) == set(sp["mandatory"]) and all(t.values()) for t in unrolled)
            ctx.check(okall, "D2-PKGDIR", IV, "for-all-required", "true iff every mandatory file exists (tests written out / table walked element by element)",
                      "is_valid_pkgdir answers true after testing %s; the mandatory files are %s" % ([sorted(t) for t in unrolled][:2], sp["mandatory"]), fn_span(body))
            ctx.check(okall, "D2-PKGDIR-REQUIRED", IV, "set", "requires exactly %s" % sorted(sp["mandatory"]), "the set of required files differs from the mandatory files", fn_span(body))
            ctx.check(okall, "D2-PKGDIR", IV, "per-file-test", "each file: pkgdir.join(name).exists()", "a per-file test is not pkgdir.join(<mandatory file name>).exists()", fn_span(body))
            isf_ok = all(any(is_call(c.term, "Path::is_file") and strip_refs(call_args(c.term)[0]) == ("param", 2) and c.fact == ("eq", False) for c in p.conds()[:1]) for p in ret_paths(ps) if const_of(p.end[1]) is True)
            ctx.check(isf_ok, "D2-PKGDIR", IV, "plain-files-rejected-first", "a plain file is rejected before the metadata is looked at",
                      "is_valid_pkgdir does not reject plain files before testing for the metadata files", fn_span(body), nontrivial=False)
        else:
          ctx.check(q is not None and q["kind"] == "all", "D2-PKGDIR", IV, "for-all-required", "true iff every mandatory file exists (%s form)" % (q["form"] if q else "?"),
                  "is_valid_pkgdir is not `every mandatory metadata file must exist`: %s" % ("no universally quantified test was recognised" if q is None else "the quantifier is `%s`" % q["kind"]), fn_span(body))
        if q is not None:
            # which files: the MetadataEntry variants the iterated collection is built from (directly, or through to_filename())
            reqd = set()
            src = [q["coll"]] + [x for x in subterms(q["coll"])]
            for x in src:
                v = strip_refs(resolve_promoted(ctx, strip_refs(x))) if isinstance(x, tuple) else x
                for y in ([v] + list(subterms(v)) if isinstance(v, tuple) else []):
                    a_ = agg_variant(y)
                    if a_ and a_[0] == ME:
                        reqd.add(a_[1])
            if not reqd:
                # a named const array: the driver exports its evaluated value as printed by rustc
                import re as _re
                for y in [q["coll"]] + list(subterms(q["coll"])):
                    if isinstance(y, tuple) and y and y[0] == "const" and isinstance(y[2], tuple) and y[2] and y[2][0] == "raw":
                        reqd.update(_re.findall(r"MetadataEntry::(\w+)", str(y[2][1])))
            if not reqd:
                # vec![..] is filled through raw stores: take the entries whose file names are computed on the way to the quantifier
                for p in ps:
                    for e in p.calls(TOF):
                        a_ = agg_variant(strip_refs(resolve_promoted(ctx, strip_refs(e.args[0]))))
                        if a_:
                            reqd.add(a_[1])
            ctx.check(reqd == set(sp["mandatory"]), "D2-PKGDIR-REQUIRED", IV, "set", "requires exactly %s" % sorted(reqd),
                      "is_valid_pkgdir requires %s; the mandatory files are %s" % (sorted(reqd), sp["mandatory"]), fn_span(body))
            t = q["pred"]
            j = strip_refs(call_args(t)[0]) if is_call(t, "Path::exists") else None
            okp = j is not None and not q["neg"] and is_call(j, "Path::join") and strip_refs(call_args(j)[0]) == ("param", 2) and is_elem(call_args(j)[1])
            namearg = strip_refs(call_args(j)[1]) if okp else None
            # the joined name is the element itself (a file name) or to_filename(element) (an entry)
            okn = okp and (is_call(namearg, TOF) or not is_call(namearg) or is_call(namearg, "AsRef", "::as_ref", "Deref>::deref", "::as_str"))
            ctx.check(okp and okn, "D2-PKGDIR", IV, "per-file-test", "each file: pkgdir.join(name).exists()",
                      "the per-file test is %s%s; expected pkgdir.join(<mandatory file name>).exists()" % ("NOT " if q["neg"] else "", term_str(t)[:100]), fn_span(body))
            isf = [c for c in q["before"] if is_call(c.term, "Path::is_file") and strip_refs(call_args(c.term)[0]) == ("param", 2)]
            ctx.check(bool(isf) and isf[0].fact == ("eq", False), "D2-PKGDIR", IV, "plain-files-rejected-first", "a plain file is rejected before the metadata is looked at",
                      "is_valid_pkgdir does not reject plain files before testing for the metadata files", fn_span(body), nontrivial=False)
        for i, p in enumerate(p_ for p_ in ret_paths(ps) if const_of(p_.end[1]) is False):
            cs = p.conds()
            last = cs[-1] if cs else None
            ok = last is not None and ((is_call(last.term, "Path::is_file") and last.fact == ("eq", True) and strip_refs(call_args(last.term)[0]) == ("param", 2))
                                      or (is_call(last.term, "Path::exists") and last.fact == ("eq", False)))
            ctx.check(ok, "D2-PKGDIR", IV, "false-path-%d" % i, "false because it is a file or a required file is missing",
                      "is_valid_pkgdir returns false for a reason other than `is a file` / `pkgdir.join(required) does not exist`", fn_span(body), nontrivial=False)
    # Metadata::is_valid
    MV = "metadata::Metadata::is_valid"
    ps = ctx.paths(MV)
    if ps:
        body = ctx.body(MV)
        want = {f["field"] for f in files if f["variant"] in sp["mandatory"]}
        for p in ret_paths(ps):
            tested = []
            for c in p.conds():
                if is_call(c.term, "String::is_empty", "str>::is_empty"):
                    fld = strip_refs(call_args(c.term)[0])
                    tested.append((fld[3] if isinstance(fld, tuple) and fld[0] == "field" else None, c.fact == ("eq", True)))
            if unwrap_ok(p.end[1]) is not None:
                ctx.check({t[0] for t in tested} == want and not any(t[1] for t in tested), "D2-METADATA-VALID", MV, "ok-path",
                          "Ok only when comment, contents, desc are all non-empty",
                          "is_valid returns Ok after testing %s; it must hold exactly when %s are all non-empty" % (tested, sorted(want)), fn_span(body))
            else:
                ctx.check(bool(tested) and tested[-1][1] and tested[-1][0] in want, "D2-METADATA-VALID", MV, "err-path-%s" % (tested[-1][0] if tested else "?"),
                          "Err because a mandatory field is empty", "is_valid returns Err for a reason other than an empty mandatory field", fn_span(body), nontrivial=False)
    # read_metadata stores into the field named after the entry
    RM = "metadata::Metadata::read_metadata"
    ps = ctx.paths(RM)
    if ps:
        body = ctx.body(RM)
        rows = {}
        for p in ps:
            v = self_discr_variant(fx, p, ME, lambda t: strip_refs(t) == ("param", 2))
            if not isinstance(v, str):
                continue
            flds = set()
            for e in p.events:
                if e.kind == "store" and isinstance(e.place, tuple) and e.place[0] == "field" and strip_refs(e.place[1]) == ("param", 1):
                    flds.add(e.place[3])
                if e.kind == "call" and e.args and isinstance(e.args[0], tuple) and e.args[0][0] in ("refmut",) and ev_is(e, "String::push_str", "String::push"):
                    t = e.args[0][1]
                    if isinstance(t, tuple) and t[0] == "field" and strip_refs(t[1]) == ("param", 1):
                        flds.add(t[3])
            rows.setdefault(v, set()).update(flds)
        for f in files:
            got = rows.get(f["variant"])
            ctx.check(got == {f["field"]}, "D2-READ-METADATA", RM, "variant=%s" % f["variant"], "%s -> self.%s" % (f["variant"], f["field"]),
                      "entry %s is stored into %s, expected field %s" % (f["variant"], sorted(got) if got else got, f["field"]), fn_span(body))
        ctx.floor("D2-READ-METADATA", RM, "rows", len(rows), 14)

    # ---- D3 split + D4 skeleton in PkgDB::next
    ps = ctx.paths(NEXT)
    if ps:
        body = ctx.body(NEXT)
        oks = [p for p in ret_paths(ps) if unwrap_some(p.end[1]) is not None and unwrap_ok(unwrap_some(p.end[1])) is not None]
        ctx.floor("D3-SPLIT", NEXT, "Some(Ok) paths", len(oks), 1)
        for i, p in enumerate(oks):
            stores = {}
            # the yielded Package's fields: a struct literal (directly or from an inlined constructor helper), overridden by later field assignments
            yv = strip_refs(unwrap_ok(unwrap_some(p.end[1])))
            ya = agg_variant(yv)
            if ya and ya[0].endswith("Package") and yv[5]:
                for fname, fval in zip(yv[5], ya[2]):
                    if fname in ("pkgbase", "pkgversion", "pkgname", "path"):
                        stores[fname] = fval
            for e in p.events:
                if e.kind == "store" and isinstance(e.place, tuple) and e.place[0] == "field" and e.place[3] in ("pkgbase", "pkgversion", "pkgname", "path"):
                    stores[e.place[3]] = e.value
            # the directory name: what pkgname is set from; pkgbase / pkgversion are its parts around the LAST '-' (whole name, "" without one)
            pn = stores.get("pkgname")
            name_t = content(pn) if pn is not None else None
            isdir = name_t is not None and mentions(name_t, lambda s: is_call(s, "DirEntry::file_name")) and substr(pn) is None and not find_split_parts(pn)
            if not isdir and name_t is not None:
                # fall back to the name the parts are cut from, so that the orientation rules still speak about the directory name
                cand = [substr(v) for v in (stores.get("pkgbase"), stores.get("pkgversion")) if v is not None and substr(v)]
                name_t = cand[0][0] if cand else name_t
            ctx.check(isdir, "D3-PKGNAME", NEXT, "field=pkgname", "pkgname := the directory name",
                      "pkgname is not the (whole) directory entry name (got %s)" % (term_str(pn)[:120] if pn else None), fn_span(body), nontrivial=(i == 0))
            isname = lambda t: t == name_t
            found = search_outcome(p, isname, "-") if name_t is not None else None
            vb, vv = stores.get("pkgbase"), stores.get("pkgversion")
            # the un-evaluated idiom `name.rsplit_once('-').unwrap_or((name, ""))` (a module without DESUGAR) carries both outcomes in one term
            legacy = [sp_ for sp_ in (find_split_parts(vb) if vb is not None else []) if sp_.get("default") is not None]
            if found is None and legacy:
                found = True
            if found is None:
                ctx.violation("D3-ORIENT", NEXT, "field=pkgbase", "pkgbase / pkgversion are not decided by a search for '-' in the directory name (got %s / %s)" % (
                    term_str(vb)[:80] if vb else None, term_str(vv)[:80] if vv else None), fn_span(body))
            elif found:
                for fld, role, v in (("pkgbase", "prefix", vb), ("pkgversion", "suffix", vv)):
                    ss = substr(v) if v is not None else None
                    r = substr_role(ss)
                    if r[0] not in ("prefix", "suffix"):
                        sps = find_split_parts(v) if v is not None else []
                        if sps:
                            s0 = sps[0]
                            r = (part_role(s0), {"last": "rfind", "first": "find"}.get(occurrence(s0), occurrence(s0)), s0["sep"])
                            ss = (content(s0["subject"]), None, None)
                    if r[0] not in ("prefix", "suffix"):
                        ctx.violation("D3-ORIENT", NEXT, "field=%s" % fld, "%s is not assigned from a split of the directory name (got %s)" % (fld, term_str(v)[:120] if v else None), fn_span(body))
                        continue
                    ctx.check(r[2] == "-" and r[1] == "rfind", "D3-LASTSEP", NEXT, "field=%s" % fld, "split at the last '-'",
                              "%s is cut at the %s occurrence of %r: the name must be split at its LAST '-'" % (fld, {"find": "first", "rfind": "last"}.get(r[1], r[1]), r[2]), body.span_of(p.blocks[-1]))
                    ctx.check(r[0] == role and isname(ss[0]), "D3-ORIENT", NEXT, "field=%s" % fld, "%s := %s of the name" % (fld, role),
                              "%s is assigned the %s of %s; expected the %s of the directory name" % (fld, r[0], term_str(ss[0])[:60], role), body.span_of(p.blocks[-1]))
            else:
                ctx.check(vb is not None and content(vb) == name_t and vv is not None and is_empty_str(vv), "D3-NODASH", NEXT, "no-dash", "no '-' -> (whole name, \"\")",
                          "a directory name without '-' gives pkgbase=%s pkgversion=%s; expected (whole name, \"\")" % (term_str(vb)[:60] if vb else None, term_str(vv)[:60] if vv else None), fn_span(body))
            pa = stores.get("path")
            ctx.check(pa is not None and is_call(pa, "DirEntry::path"), "D4-PATH", NEXT, "field=path", "path := the directory's path",
                      "Package.path is not the directory entry's path", fn_span(body), nontrivial=False)
            # validity filter dominates
            iv = [c for c in p.conds() if is_call(c.term, "PkgDB::is_valid_pkgdir")]
            ctx.check(bool(iv) and iv[-1].fact == ("eq", True), "D4-FILTER", NEXT, "valid-only", "a package is returned only for a valid pkgdir",
                      "a package is returned without is_valid_pkgdir holding", fn_span(body))
        backs = [p for p in ps if p.end[0] == "back"]
        okb = bool(backs) and all(any(is_call(c.term, "PkgDB::is_valid_pkgdir") and c.fact == ("eq", False) for c in p.conds()) for p in backs)
        ctx.check(okb, "D4-FILTER", NEXT, "continue-only-invalid", "the loop continues only past invalid directories",
                  "the directory loop has a `continue` not caused by an invalid directory (or none at all)", fn_span(body))
    PR = "pkgdb::Package::read_metadata"
    ps = ctx.paths(PR)
    if ps:
        body = ctx.body(PR)
        for i, p in enumerate(ret_paths(ps)):
            r = p.end[1]
            ok = is_call(r, "fs::read_to_string")
            if ok:
                j = strip_refs(call_args(r)[0])
                ok = is_call(j, "Path::join") and mentions(call_args(j)[0], lambda s: s[0] == "field" and s[3] == "path" and strip_refs(s[1]) == ("param", 1)) \
                    and is_call(strip_refs(call_args(j)[1]), TOF) and strip_refs(call_args(strip_refs(call_args(j)[1]))[0]) == ("param", 2)
            ctx.check(ok, "D4-READ", PR, "path-%d" % i, "read_to_string(self.path.join(entry.to_filename()))",
                      "read_metadata does not read <package path>/<to_filename(entry)>", fn_span(body))

    # PkgDB::open: a directory opens as a Files database whose ReadDir is that directory
    OP = "pkgdb::PkgDB::open"
    ps = ctx.paths(OP)
    if ps:
        body = ctx.body(OP)
        oks = [p for p in ret_paths(ps) if unwrap_ok(p.end[1]) is not None]
        files = 0
        for p in oks:
            isd = [c for c in p.conds() if is_call(c.term, "Path::is_dir")]
            if not (isd and isd[0].fact == ("eq", True)):
                continue
            files += 1
            st = {}
            for e in p.events:
                if e.kind == "store" and isinstance(e.place, tuple) and e.place[0] == "field":
                    st[e.place[3]] = e.value
            v = unwrap_ok(p.end[1])
            a = agg_variant(v)
            if a:
                for n_, t_ in zip(v[5], a[2]):
                    st.setdefault(n_, t_)
            dt = agg_variant(st.get("dbtype"))
            rd = unwrap_some(st.get("readdir")) if st.get("readdir") is not None else None
            ok = bool(dt) and dt[1] == "Files" and rd is not None and bool(find_calls(rd, "fs::read_dir")) and mentions(rd, lambda s: s == ("param", 1)) \
                and not find_calls(rd, "Path::parent", "Path::join", "Path::with_file_name", "Path::ancestors") and mentions(st.get("path"), lambda s: s == ("param", 1))
            ctx.check(ok, "D4-OPEN", OP, "directory", "directory -> DBType::Files with readdir = read_dir(that path)",
                      "opening a directory does not yield a Files database reading that directory", fn_span(body))
        ctx.floor("D4-OPEN", OP, "directory-opening paths", files, 1)
        nf = [p for p in ret_paths(ps) if unwrap_err(p.end[1]) is not None and not is_propagated_err(p.end[1])]
        ok = bool(nf) and all(any(is_call(c.term, "Path::is_dir") and c.fact == ("eq", False) for c in p.conds()) for p in nf)
        ctx.check(ok, "D4-OPEN", OP, "neither", "neither file nor directory -> Err", "open() does not reject a path that is neither a directory nor a file", fn_span(body), nontrivial=False)

    # ---- D4-SINGLE-PASS: the directory is opened once, by open(), and that one handle is what next() draws from ("each once" is ReadDir's
    #      contract for ONE pass over ONE handle): nothing else in the module opens a directory listing, next() only borrows self.readdir
    openers = set()
    for k, f in fx.fns.items():
        if f["kind"] in ("Fn", "AssocFn", "Closure") and (k.startswith("pkgdb::") or k.startswith("<pkgdb::")):
            b = ctx.body(k)
            if b is not None and any(mir.norm_path(t["func"]["path"]).endswith("fs::read_dir") or t["func"]["path"].endswith("::read_dir") for _, t in b.calls()):
                openers.add(k.split("::{closure", 1)[0])
    ctx.check(openers == {OP}, "D4-SINGLE-PASS", "pkgdb", "opened-once", "read_dir is called by PkgDB::open only",
              "a directory listing is opened by %s: iteration may restart or run over a second handle, so packages can be listed twice" % sorted(openers - {OP} or openers or ["nothing"]))
    ps = ctx.paths(NEXT)
    if ps:
        body = ctx.body(NEXT)
        nx = [e for p in ps for e in p.events if e.kind == "call" and "ReadDir" in e.name and e.name.endswith("::next")] + \
             [e for p in ps for e in p.events if e.kind == "call" and ev_is(e, "Iterator::find", "Iterator::find_map", "Iterator::map_while", "Iterator::filter", "Iterator::by_ref") and "ReadDir" in (e.data.get("full") or "") + " ".join(str(g) for g in (e.data.get("gargs") or ()))]
        from_self = bool(nx) and all(mentions(e.args[0], lambda s_: s_[0] == "field" and s_[3] == "readdir" and deval(s_[1]) == ("param", 1)) for e in nx)
        ctx.check(from_self, "D4-SINGLE-PASS", NEXT, "draws-from-self.readdir", "entries are taken from self.readdir",
                  "next() does not take its entries from the handle stored by open() (self.readdir)", fn_span(body))
        mut = sorted({e.name.split("::")[-1] for p in ps for e in p.events if e.kind == "call" and e.args and isinstance(e.args[0], tuple) and e.args[0][0] == "refmut"
                      and isinstance(e.args[0][1], tuple) and e.args[0][1][0] == "field" and e.args[0][1][3] == "readdir" and not ev_is(e, "Option::as_mut", "Option::as_deref_mut", "Option::iter_mut")} |
                     {"assignment" for p in ps for e in p.events if e.kind == "store" and isinstance(e.place, tuple) and mentions(e.place, lambda s_: s_[0] == "field" and s_[3] == "readdir" and deval(s_[1]) == ("param", 1))})
        ctx.check(not mut, "D4-SINGLE-PASS", NEXT, "handle-only-borrowed", "next() only borrows self.readdir",
                  "next() replaces or moves the stored handle (%s): the position in the directory can be lost or reset" % mut, fn_span(body))

    # ---- the accessors through which each listed package is observed
    for fld in ("pkgname", "pkgbase", "pkgversion"):
        accessor_faithful(ctx, "D2-ACCESSOR", "pkgdb::Package::%s" % fld, fld)
