"""Shared pieces for the distinfo rules (C10, C11, C12)."""
from lib import *

ET = "distinfo::EntryType"
ET_FROM = "<distinfo::EntryType as std::convert::From<P>>::from"
LINE = "distinfo::Line"
LFB = "distinfo::Line::from_bytes"
DFB = "distinfo::Distinfo::from_bytes"


def is_patch_spec(a):
    """a: dict predicate -> bool ; the naming rule from the property statement"""
    if a[("starts_with", "patch-local-")] or a[("ends_with", ".orig")] or a[("ends_with", ".rej")] or a[("ends_with", "~")]:
        return False
    if (a[("starts_with", "patch-")] or (a[("starts_with", "emul-")] and a[("contains", "-patch-")])) and not a[("contains", ".tar.")]:
        return True
    return False


def feasible(a):
    if a[("starts_with", "patch-local-")] and not a[("starts_with", "patch-")]:
        return False
    if a[("starts_with", "patch-")] and a[("starts_with", "emul-")]:
        return False
    suf = [a[("ends_with", ".orig")], a[("ends_with", ".rej")], a[("ends_with", "~")]]
    if sum(1 for x in suf if x) > 1:
        return False
    return True


def pred_of(t):
    """(api, literal) for a str predicate call on the lossy file name"""
    if not is_call(t, "str>::starts_with", "str>::ends_with", "str>::contains"):
        return None
    api = mir.norm_path(t[1]).split("::")[-1]
    lit = const_str(call_args(t)[1])
    if lit is None:
        c = const_char(call_args(t)[1])
        lit = c
    return (api, lit), call_args(t)[0]


def map_field_of(t):
    """'distfiles' / 'patchfiles' if term mentions that field of self, or a get_* helper"""
    out = set()
    for s in subterms(t):
        if s[0] == "field" and s[3] in ("distfiles", "patchfiles"):
            out.add(s[3])
        if is_call(s, "Distinfo::get_distfile"):
            out.add("distfiles")
        if is_call(s, "Distinfo::get_patchfile"):
            out.add("patchfiles")
    return out


def distinfo_accessors(ctx, rule, only=None):
    """Distinfo's read accessors return what the maps hold: rcsid, get_distfile/get_patchfile (lookup by the caller's name in the
    matching map), distfiles/patchfiles (every entry, in map = first-appearance order)"""
    table = (("rcsid", "rcsid", "field"), ("get_distfile", "distfiles", "get"), ("get_patchfile", "patchfiles", "get"),
             ("distfiles", "distfiles", "values"), ("patchfiles", "patchfiles", "values"))
    for fn, fld, mode in table:
        if only and fn not in only:
            continue
        accessor_faithful(ctx, rule, "distinfo::Distinfo::%s" % fn, fld, mode)
