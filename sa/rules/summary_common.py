"""Shared extraction for the pkg_summary rules (C07, C08, C17)."""
from lib import *

VAR = "summary::SummaryVariable"
VAL = "summary::SummaryValue"
FROMSTR_VAR = "<summary::SummaryVariable as std::str::FromStr>::from_str"
DISPLAY_VAR = "<summary::SummaryVariable as std::fmt::Display>::fmt"
DISPLAY_SUM = "<summary::Summary as std::fmt::Display>::fmt"
FROMSTR_SUM = "<summary::Summary as std::str::FromStr>::from_str"
WRITERS = ("summary::Summary::insert_or_update", "summary::Summary::insert_or_push")
READERS = {"summary::Summary::get_s": "S", "summary::Summary::get_i": "I", "summary::Summary::get_a": "A"}


def vars_spec():
    return spec("summary_vars.json")


def parse_table(ctx):
    """literal -> variant from SummaryVariable::from_str; plus default-arm verdict"""
    paths = ctx.paths(FROMSTR_VAR)
    tbl, default_ok = {}, None
    for p in ret_paths(paths or []):
        pos, _ = true_str_lits(p)
        if pos:
            lit, scrut = pos[0]
            okv = unwrap_ok(p.end[1])
            a = agg_variant(okv) if okv else None
            tbl[lit] = (a[1] if a and a[0] == VAR else None, strip_refs(scrut) == ("param", 1))
        else:
            er = unwrap_err(p.end[1])
            a = agg_variant(er) if er else None
            default_ok = bool(a and a[1] == "ParseVariable" and find_calls(a[2][0], "::to_string", "::to_owned", "::from") and mentions(a[2][0], lambda s: s == ("param", 1)))
    return tbl, default_ok


def display_table(ctx, key, adt):
    """variant -> list of literal writes for a Display impl that matches on self"""
    paths = ctx.paths(key)
    tbl = {}
    for p in ret_paths(paths or []):
        v = self_discr_variant(ctx.fx, p, adt, lambda t: strip_refs(t) == ('param', 1))
        if isinstance(v, str):
            tbl.setdefault(v, []).append(fmt_literal_writes(p))
    return tbl


def method_effect(ctx, key):
    """For a setter/pusher/getter: list of (callee, variant, kind-variant, payload term) for calls to
    the writer / reader primitives on every path."""
    out = []
    for p in ret_paths(ctx.paths(key) or []):
        for e in p.events:
            if e.kind != "call":
                continue
            if e.path in WRITERS:
                v = agg_variant(e.args[1])
                k = agg_variant(e.args[2])
                out.append((e.path, v[1] if v and v[0] == VAR else None, k[1] if k and k[0] == VAL else None,
                            k[2][0] if k and k[2] else None, e, p))
            elif e.path in READERS:
                v = agg_variant(e.args[1])
                out.append((e.path, v[1] if v and v[0] == VAR else None, READERS[e.path], None, e, p))
    return out
