"""Shared extraction for the pkg_summary rules (C07, C08, C17)."""
from lib import *

VAR = "summary::SummaryVariable"
VAL = "summary::SummaryValue"
FROMSTR_VAR = "<summary::SummaryVariable as std::str::FromStr>::from_str"
DISPLAY_VAR = "<summary::SummaryVariable as std::fmt::Display>::fmt"
DISPLAY_SUM = "<summary::Summary as std::fmt::Display>::fmt"
FROMSTR_SUM = "<summary::Summary as std::str::FromStr>::from_str"
WRITERS = ("summary::Summary::insert_or_update", "summary::Summary::insert_or_push")
READERS = {"summary::Summary::get_s": "S", "summary::Summary::get_i": "I", "summary::Summary::get_a": "A"}


def vars_spec():
    return spec("summary_vars.json")


def parse_table(ctx):
    """literal -> variant from SummaryVariable::from_str; plus default-arm verdict"""
    paths = ctx.paths(FROMSTR_VAR)
    tbl, default_ok = {}, None
    for p in ret_paths(paths or []):
        pos, _ = true_str_lits(p)
        if pos:
            lit, scrut = pos[0]
            okv = unwrap_ok(p.end[1])
            a = agg_variant(okv) if okv else None
            tbl[lit] = (a[1] if a and a[0] == VAR else None, strip_refs(scrut) == ("param", 1))
        else:
            er = unwrap_err(p.end[1])
            a = agg_variant(er) if er else None
            default_ok = bool(a and a[1] == "ParseVariable" and find_calls(a[2][0], "::to_string", "::to_owned", "::from") and mentions(a[2][0], lambda s: s == ("param", 1)))
    return tbl, default_ok


def display_table(ctx, key, adt):
    """variant -> list of literal writes for a Display impl that matches on self"""
    paths = ctx.paths(key)
    tbl = {}
    for p in ret_paths(paths or []):
        v = self_discr_variant(ctx.fx, p, adt, lambda t: strip_refs(t) == ('param', 1))
        if isinstance(v, str):
            tbl.setdefault(v, []).append(fmt_literal_writes(p))
    return tbl


def method_effect(ctx, key):
    """For a setter/pusher/getter: list of (callee, variant, kind-variant, payload term) for calls to
    the writer / reader primitives on every path."""
    out = []
    for p in ret_paths(ctx.paths(key) or []):
        for e in p.events:
            if e.kind != "call":
                continue
            if e.path in WRITERS:
                v = agg_variant(e.args[1])
                k = agg_variant(e.args[2])
                out.append((e.path, v[1] if v and v[0] == VAR else None, k[1] if k and k[0] == VAL else None,
                            k[2][0] if k and k[2] else None, e, p))
            elif e.path in READERS:
                v = agg_variant(e.args[1])
                out.append((e.path, v[1] if v and v[0] == VAR else None, READERS[e.path], None, e, p))
    return out


def primitives(ctx, rule):
    """insert_or_update overwrites/inserts `val` under `var` on every path; insert_or_push is entry(var).and_modify(push val).or_insert(val);
    SummaryValue::push appends in order.  Necessary for C07 (kind consistency, stored value = set value) and C08 (a repeated single-valued
    variable keeps its last value; multi-line variables accumulate in order)."""
    for key in WRITERS:
        ps = ctx.paths(key)
        body = ctx.body(key)
        if not ps:
            continue
        # every access to the map (entry / insert / get_mut / get / remove / contains_key) is keyed by `var`
        ent = [e for p in ps for e in p.events if ev_is(e, "HashMap::entry", "HashMap::insert", "HashMap::get_mut", "HashMap::get", "HashMap::remove", "HashMap::contains_key")]
        ok = bool(ent) and all(strip_refs(e.args[1]) == ("param", 2) for e in ent)
        ctx.check(ok, rule, key, "keyed-by-var", "entries accessed under `var` only", "%s does not address entries by its `var` argument" % key, fn_span(body))
    ps = ctx.paths(WRITERS[0])
    if ps:
        body = ctx.body(WRITERS[0])
        for i, p in enumerate(ret_paths(ps)):
            st = [e for e in p.events if e.kind == "store" and strip_refs(e.value) == ("param", 3)]
            ins = [e for e in p.events if e.kind == "call" and e.name.endswith("VacantEntry::insert") and strip_refs(e.args[1]) == ("param", 3)]
            # HashMap::insert(var, val) replaces an existing value and inserts a missing one in one call
            ins += [e for e in p.events if ev_is(e, "HashMap::insert") and strip_refs(e.args[1]) == ("param", 2) and strip_refs(e.args[2]) == ("param", 3)
                    and mentions(e.args[0], lambda s_: s_[0] == "field" and s_[3] == "entries")]
            ctx.check(bool(st) or bool(ins), rule, WRITERS[0], "overwrite-%d" % i, "value replaced / inserted with `val`",
                      "insert_or_update has a path that neither overwrites nor inserts `val`", fn_span(body))
    ps = ctx.paths(WRITERS[1])
    if ps:
        body = ctx.body(WRITERS[1])
        seen_arms = set()
        for i, p in enumerate(ret_paths(ps)):
            am = [e for e in p.events if e.kind == "call" and e.path.endswith("::and_modify")]
            oi = [e for e in p.events if e.kind == "call" and e.path.endswith("::or_insert")]
            ok = len(am) == 1 and len(oi) == 1 and strip_refs(oi[0].args[1]) == ("param", 3) and oi[0].args[0] == am[0].term
            how = "entry(var).and_modify(push val).or_insert(val)"
            if not am and not oi:
                # the same two arms written with a lookup: get_mut(&var) found -> existing.push(&val); not found -> insert(var, val)
                gm = [c for c in p.conds() if c.term[0] == "discr" and is_call(strip_refs(c.term[1]), "HashMap::get_mut") and strip_refs(call_args(strip_refs(c.term[1]))[1]) == ("param", 2)]
                pu = [e for e in p.events if e.kind == "call" and e.path == "summary::SummaryValue::push"]
                ins = [e for e in p.events if ev_is(e, "HashMap::insert")]
                if gm:
                    found = gm[-1].fact == ("eq", 1)
                    g = strip_refs(gm[-1].term[1])
                    if found:
                        ok = len(pu) == 1 and not ins and mentions(pu[0].args[0], lambda s_: s_ == g) and strip_refs(pu[0].args[1]) == ("param", 3)
                    else:
                        ok = len(ins) == 1 and not pu and strip_refs(ins[0].args[1]) == ("param", 2) and strip_refs(ins[0].args[2]) == ("param", 3)
                    seen_arms.add(found)
                    how = "get_mut(&var): found -> existing.push(&val), absent -> insert(var, val)"
                # ... or with a match on entry(var): Occupied(e) -> e.get_mut() / e.into_mut() .push(&val); Vacant(e) -> e.insert(val)
                en = [c for c in p.conds() if c.term[0] == "discr" and is_call(strip_refs(c.term[1]), "HashMap::entry") and strip_refs(call_args(strip_refs(c.term[1]))[1]) == ("param", 2)]
                if en and not gm:
                    g = strip_refs(en[-1].term[1])
                    vins = [e for e in p.events if e.kind == "call" and e.name.endswith("VacantEntry::insert")]
                    if en[-1].fact == ("eq", 0):
                        ok = len(pu) == 1 and not ins and not vins and strip_refs(pu[0].args[1]) == ("param", 3) and \
                            is_call(strip_refs(pu[0].args[0]), "OccupiedEntry::get_mut", "OccupiedEntry::into_mut") and mentions(pu[0].args[0], lambda s_: s_ == ("downcast", g, "Occupied"))
                        seen_arms.add(True)
                    elif en[-1].fact == ("eq", 1):
                        ok = len(vins) == 1 and not pu and not ins and strip_refs(vins[0].args[1]) == ("param", 3) and mentions(vins[0].args[0], lambda s_: s_ == ("downcast", g, "Vacant"))
                        seen_arms.add(False)
                    how = "match entry(var): Occupied -> existing.push(&val), Vacant -> insert(val)"
            ctx.check(ok, rule, WRITERS[1], "modify-or-insert-%d" % i, how,
                      "insert_or_push is not `append val to the existing value, or insert val when there is none`", fn_span(body))
        if seen_arms:
            ctx.check(seen_arms == {True, False}, rule, WRITERS[1], "both-arms", "found and absent arms both present",
                      "insert_or_push lacks the %s arm" % ("absent" if True in seen_arms else "found"), fn_span(body), nontrivial=False)
        ck = "summary::Summary::insert_or_push::{closure#0}"
        cps = ctx.paths(ck) if ctx.fx.fn(ck) is not None else None
        for i, p in enumerate(ret_paths(cps or [])):
            pu = [e for e in p.events if e.kind == "call" and e.path == "summary::SummaryValue::push"]
            ok = len(pu) == 1 and strip_refs(pu[0].args[0]) == ("param", 2)
            ctx.check(ok, rule, ck, "push-%d" % i, "existing.push(val)", "and_modify closure does not push onto the existing value", "")
    pk = "summary::SummaryValue::push"
    ps = ctx.paths(pk)
    if ps:
        body = ctx.body(pk)
        oks = ret_paths(ps)
        good = [p for p in oks if any(e.kind == "call" and e.path.endswith("extend_from_slice") for e in p.events)]
        ctx.check(len(oks) >= 1 and len(good) == len(oks), rule, pk, "append", "A.push(A) appends (extend_from_slice) in order",
                  "SummaryValue::push does not append with extend_from_slice on every returning path", fn_span(body))
        # ... and does nothing else to the stored lines: no dedup / sort / retain / truncate / insert after (or before) the append
        mu = mutators_of(ps, lambda t: mentions(t, lambda s_: s_ == ("param", 1)))
        other = sorted(k for k in mu if k not in ("extend_from_slice", "extend", "push", "append", "extend_from_within", "reserve", "deref_mut", "as_mut"))
        ctx.check(not other, rule, pk, "append-only", "the stored lines are only appended to", "SummaryValue::push also modifies the stored lines through %s: lines are dropped, merged or reordered" % other, fn_span(body))
    # the reader primitives hand back the stored payload of the matching kind, unchanged (no cast, no arithmetic)
    for key, kind in READERS.items():
        ps = ctx.paths(key)
        if not ps:
            continue
        body = ctx.body(key)
        somes = 0
        for i, p in enumerate(ret_paths(ps)):
            sm = unwrap_some(p.end[1])
            if sm is None:
                continue
            somes += 1

            def leaf(s, kind=kind):
                return (isinstance(s, tuple) and s and s[0] == "field" and s[2] == 0 and isinstance(s[1], tuple) and s[1][0] == "downcast" and s[1][2] == kind
                        and bool(mentions(s[1][1], lambda g: is_call(g, "HashMap::get") and strip_refs(call_args(g)[1]) == ("param", 2))))
            ctx.check(carried_unchanged(sm, leaf), rule, key, "returns-payload-%s" % kind, "Some(payload of %s(..) stored under var), unchanged" % kind,
                      "%s returns %s, which is not the stored %s payload unchanged (a cast or computation sits in between)" % (key, term_str(sm), kind), fn_span(body))
        ctx.check(somes >= 1, rule, key, "has-some-path", "reader returns the value when present", "%s never returns Some(..)" % key, fn_span(body), nontrivial=False)


def accessors(ctx, V, racc, rpay):
    """every public getter/setter/pusher addresses the variable its name denotes, with the spec kind, stores its argument / returns the stored value."""
    fx = ctx.fx
    counts = {"get": 0, "set": 0, "push": 0}
    for v in V:
        for pref, mode in (("", "get"), ("set_", "set"), ("push_", "push")):
            key = "summary::Summary::%s%s" % (pref, v["stem"])
            if mode == "push" and v["kind"] != "A":
                if fx.fn(key) is not None:
                    ctx.violation(racc, key, "pusher-on-scalar", "a pusher exists for the single-valued variable %s" % v["name"], "")
                continue
            if fx.fn(key) is None:
                ctx.violation(racc, key, "missing", "public accessor %s not found" % key, "")
                continue
            eff = method_effect(ctx, key)
            body = ctx.body(key)
            counts[mode] += 1
            want_callee = {"get": "summary::Summary::get_" + v["kind"].lower(), "set": WRITERS[0], "push": WRITERS[1]}[mode]
            ok = len(eff) >= 1 and all(c == want_callee and var == v["variant"] and kind == v["kind"] for (c, var, kind, _, _, _) in eff)
            ctx.check(ok, racc, key, "%s:%s" % (mode, v["name"]),
                      "%s -> %s(%s, %s)" % (key.split("::")[-1], want_callee.split("::")[-1], v["variant"], v["kind"]),
                      "%s performs %s; expected %s on variable %s with kind %s" % (key, [(c.split("::")[-1], var, kind) for (c, var, kind, _, _, _) in eff], want_callee.split("::")[-1], v["variant"], v["kind"]),
                      fn_span(body))
            if mode in ("set", "push") and ok:
                # payload carries the caller's argument
                okp = all(pay is not None and flows_from(p, pay, lambda s: s == ("param", 2)) for (_, _, _, pay, _, p) in eff)
                ctx.check(okp, rpay, key, "%s:%s" % (mode, v["name"]), "stored value is built from the argument",
                          "%s does not store its argument" % key, fn_span(body))
                # ... and no numeric cast / arithmetic alters it on the way in (an i64 must be stored as that i64)
                alter = [s for (_, _, _, pay, _, _) in eff if pay is not None for s in subterms(pay)
                         if isinstance(s, tuple) and s and (s[0] in ("binop", "unop") or (s[0] == "cast" and not str(s[1]).startswith("PointerCoercion")))]
                if v["kind"] == "I":
                    # an integer needs no conversion at all: the payload is the argument itself
                    alter += [pay for (_, _, _, pay, _, _) in eff if pay is not None and not carried_unchanged(pay, lambda s: s == ("param", 2))]
                ctx.check(not alter, rpay, key, "%s:%s:unaltered" % (mode, v["name"]), "argument stored without cast or arithmetic",
                          "%s alters its argument before storing it: %s" % (key, [term_str(a) for a in alter[:2]]), fn_span(body), nontrivial=False)
            if mode == "get" and ok:
                okr = all(p.end[1] == e.term for (_, _, _, _, e, p) in eff)
                ctx.check(okr, rpay, key, "get:%s" % v["name"], "getter returns the stored value unchanged",
                          "%s does not return the reader's result unchanged" % key, fn_span(body))
    ctx.floor(racc, "summary::Summary", "getters", counts["get"], 23)
    ctx.floor(racc, "summary::Summary", "setters", counts["set"], 23)
    ctx.floor(racc, "summary::Summary", "pushers", counts["push"], 6)


def parse_rules(ctx, V, rule):
    """SummaryVariable::from_str accepts exactly the 23 pkg_summary names (scrutinee = the input), each -> its variant; anything else -> Err(ParseVariable(name))"""
    names = [v["name"] for v in V]
    parse, default_ok = parse_table(ctx)
    ctx.check(default_ok is True, rule + "-DEFAULT", FROMSTR_VAR, "default", "unknown name -> Err(ParseVariable(name))",
              "default arm does not return Err(ParseVariable(<the name>))")
    for v in V:
        got = parse.get(v["name"])
        ctx.check(got is not None and got[0] == v["variant"] and got[1], rule, FROMSTR_VAR, "name=%s" % v["name"],
                  "%s -> %s" % (v["name"], v["variant"]),
                  "%r parses to %s (scrutinee is input: %s), expected %s" % (v["name"], got and got[0], got and got[1], v["variant"]))
    extra = sorted(set(parse) - set(names))
    ctx.check(not extra, rule, FROMSTR_VAR, "no-extra-literals", "accepted literals = the 23 names",
              "from_str accepts names outside pkg_summary(5): %s" % extra)
    ctx.floor(rule, FROMSTR_VAR, "literals", len(parse), 23)
    return parse


def who_writes(ctx, rule):
    """only insert_or_update / insert_or_push store into Summary.entries (removal-only methods are harmless)"""
    fx = ctx.fx
    writers_found = set()
    for key, f in fx.bodies():
        for b in f["blocks"]:
            if b["cleanup"]:
                continue
            items = [(s["rv"], s["span"]) for s in b["stmts"] if s["k"] == "assign"]
            for rv, spn in items:
                pl = rv.get("place") if rv["k"] in ("ref", "rawptr") else None
                if pl and (rv.get("bk") == "mut" or "Mut" in str(rv.get("bk"))):
                    if any(e["k"] == "field" and e.get("name") == "entries" and e.get("ty", "").startswith("std::collections::HashMap<summary::SummaryVariable") for e in pl["p"]):
                        writers_found.add(key)
            for s in b["stmts"]:
                if s["k"] == "assign":
                    pl = s["place"]
                    if pl["p"] and any(e["k"] == "field" and e.get("name") == "entries" and e.get("ty", "").startswith("std::collections::HashMap<summary::SummaryVariable") for e in pl["p"]):
                        writers_found.add(key)
    # a function that only removes (clear/remove/retain/drain/...) cannot store a value of the wrong kind
    HARMLESS = {"clear", "remove", "remove_entry", "retain", "drain", "shrink_to_fit", "shrink_to", "reserve", "try_reserve", "len", "is_empty", "capacity"}
    for k in sorted(writers_found - set(WRITERS)):
        uses = [e for p in (ctx.paths(k) or []) for e in p.events if e.kind == "call" and e.args and
                mentions(e.args[0], lambda s: s[0] == "field" and s[3] == "entries") and isinstance(e.args[0], tuple) and e.args[0][0] == "refmut"]
        stores = [e for p in (ctx.paths(k) or []) for e in p.events if e.kind == "store" and mentions(e.place, lambda s: s[0] == "field" and s[3] == "entries")]
        if uses and not stores and all(e.name.split("::")[-1] in HARMLESS for e in uses):
            writers_found.discard(k)
    unexpected = sorted(k for k in writers_found if k not in WRITERS)
    ctx.check(not unexpected, rule, "summary::Summary.entries", "writers",
              "only %s take &mut entries" % sorted(writers_found),
              "functions other than insert_or_update/insert_or_push mutate Summary.entries: %s (kind consistency of stored values is no longer guaranteed)" % unexpected)
    ctx.floor(rule, "summary::Summary.entries", "writer functions", len(writers_found & set(WRITERS)), 2)
