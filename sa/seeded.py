#!/usr/bin/env python3
"""Evaluate the independently written seeded changes under /verif/seeded/<id>/ (patch.diff, demo.rs, meta.json).

  python3 sa/seeded.py verify <id>   : in a scratch copy (outside /repo and /verif) confirm the patch applies, the crate builds,
                                        the existing suite passes with it, the demo fails with it and passes without it
  python3 sa/seeded.py detect [<id>] : apply each patch to a scratch copy, re-extract facts, run all 20 checks and record which fire
"""
import json
import os
import shutil
import subprocess
import sys
import tempfile

HERE = os.path.dirname(os.path.abspath(__file__))
VERIF = os.path.dirname(HERE)
sys.path.insert(0, HERE)
import mutants  # noqa: E402

SEEDED = os.path.join(VERIF, "seeded")
PROPS = ["C%02d" % i for i in range(1, 21)]


def scratch_with_patch(sid, with_git=False):
    tmp = tempfile.mkdtemp(prefix="pkgsrc-seed-")
    work = os.path.join(tmp, "repo")
    shutil.copytree("/repo", work, ignore=shutil.ignore_patterns("target", ".git"))
    r = subprocess.run(["patch", "-p1", "-s", "-i", os.path.join(SEEDED, sid, "patch.diff")], cwd=work, stdout=subprocess.PIPE, stderr=subprocess.STDOUT, text=True)
    return tmp, work, r.returncode == 0, r.stdout


def keys_for(work):
    out = os.path.join(os.path.dirname(work), "facts.json")
    r = subprocess.run([os.path.join(HERE, "extract_direct.sh"), work, mutants.ARGV, out], stdout=subprocess.PIPE, stderr=subprocess.PIPE, text=True)
    if r.returncode != 0:
        return None, r.stderr[-500:]
    res = {}
    for prop in PROPS:
        rr = subprocess.run([sys.executable, os.path.join(HERE, "check.py"), prop, "--facts", out, "--json", "--no-evidence"], stdout=subprocess.PIPE, stderr=subprocess.PIPE, text=True)
        ks = None
        for line in rr.stdout.splitlines():
            if line.startswith('{"violations"'):
                ks = json.loads(line)["violations"]
        if ks is None:
            # the checker itself failed (exception / no verdict): that is not silence
            ks = ["ENGINE@%s#crash:%s" % (prop, (rr.stderr.strip().splitlines() or ["?"])[-1][:80])]
        res[prop] = ks
    return res, None


def detect(ids):
    if not mutants.capture_argv("/repo"):
        print("cannot capture rustc argv")
        return 2
    tmp0 = tempfile.mkdtemp(prefix="pkgsrc-seed-base-")
    base_work = os.path.join(tmp0, "repo")
    shutil.copytree("/repo", base_work, ignore=shutil.ignore_patterns("target", ".git"))
    base, err = keys_for(base_work)
    shutil.rmtree(tmp0, ignore_errors=True)
    missed = 0

    def one(sid):
        tmp, work, ok, msg = scratch_with_patch(sid)
        try:
            if not ok:
                return (sid, None, "patch does not apply: %s" % msg[:200])
            res, err = keys_for(work)
            if res is None:
                return (sid, None, "does not compile: %s" % err[:200])
            return (sid, res, None)
        finally:
            shutil.rmtree(tmp, ignore_errors=True)
    from concurrent.futures import ThreadPoolExecutor
    with ThreadPoolExecutor(max_workers=8) as ex:
        results = list(ex.map(one, ids))
    for sid, res, err in results:
        tmp = None
        try:
            if res is None:
                print("%-28s %s" % (sid, err))
                continue
            fired = {p: [k for k in ks if k not in base.get(p, [])] for p, ks in res.items()}
            fired = {p: ks for p, ks in fired.items() if ks}
            mp = os.path.join(SEEDED, sid, "meta.json")
            meta = json.load(open(mp)) if os.path.exists(mp) else {}
            target = meta.get("property")
            hit = bool(fired.get(target)) if target else bool(fired)
            meta["detected_by"] = {p: ks[:6] for p, ks in fired.items()}
            meta["detected_by_target_property"] = hit
            with open(mp, "w") as f:
                json.dump(meta, f, indent=1)
            if not hit:
                missed += 1
            print("%-28s target=%s %s fired=%s" % (sid, target, "CAUGHT" if hit else "MISSED", {p: len(k) for p, k in fired.items()}))
        finally:
            pass
    return 1 if missed else 0


def verify(sid):
    tmp, work, ok, msg = scratch_with_patch(sid)
    env = dict(os.environ)
    env["CARGO_TARGET_DIR"] = os.path.join(tmp, "target")
    env["CARGO_NET_OFFLINE"] = "true"
    out = {"patch_applies": ok}
    try:
        if not ok:
            print(msg)
            return out

        def run(cmd, cwd):
            r = subprocess.run(cmd, cwd=cwd, env=env, stdout=subprocess.PIPE, stderr=subprocess.STDOUT, text=True)
            return r.returncode, r.stdout
        rc, log = run(["cargo", "test", "--workspace", "--no-fail-fast", "--offline"], work)
        out["suite_passes_with_change"] = rc == 0
        demo = os.path.join(SEEDED, sid, "demo.rs")
        shutil.copy(demo, os.path.join(work, "tests", "seed_demo.rs"))
        rc, log = run(["cargo", "test", "--offline", "--test", "seed_demo"], work)
        out["demo_fails_with_change"] = rc != 0
        out["demo_failure_excerpt"] = "\n".join(l for l in log.splitlines() if "panicked" in l or "FAILED" in l or "test result" in l)[:600]
        # original tree
        orig = os.path.join(tmp, "orig")
        shutil.copytree("/repo", orig, ignore=shutil.ignore_patterns("target", ".git"))
        shutil.copy(demo, os.path.join(orig, "tests", "seed_demo.rs"))
        env["CARGO_TARGET_DIR"] = os.path.join(tmp, "target-orig")   # separate: same package id at another path would reuse the patched build
        rc, log = run(["cargo", "test", "--offline", "--test", "seed_demo"], orig)
        out["demo_passes_without_change"] = rc == 0
        return out
    finally:
        shutil.rmtree(tmp, ignore_errors=True)


if __name__ == "__main__":
    cmd = sys.argv[1]
    ids = sys.argv[2:] or sorted(d for d in os.listdir(SEEDED) if os.path.isdir(os.path.join(SEEDED, d)))
    if cmd == "verify":
        for sid in ids:
            r = verify(sid)
            print(sid, json.dumps(r, indent=1))
            mp = os.path.join(SEEDED, sid, "meta.json")
            meta = json.load(open(mp)) if os.path.exists(mp) else {}
            meta["verified"] = r
            meta["verify_cmd"] = "python3 sa/seeded.py verify %s  (scratch copy: cargo test --workspace --no-fail-fast --offline with the patch; cargo test --test seed_demo with and without it)" % sid
            json.dump(meta, open(mp, "w"), indent=1)
    elif cmd == "detect":
        sys.exit(detect(ids))
