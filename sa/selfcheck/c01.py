D = "src/dewey.rs"
MUTANTS = [
 {"id": "regress-pre-missing", "kind": "break",
  "edits": [(D, "            } else if starts_with_ignore_ascii_case(slice, \"pre\") {\n                version.push(-1);\n                idx += 3;\n                continue;\n", "")], "expect": ["D1-TOK-TABLE", "literal=pre"]},
 {"id": "regress-case-sensitive-alpha", "kind": "break", "edits": [(D, 'starts_with_ignore_ascii_case(slice, "alpha")', 'slice.starts_with("alpha")')], "expect": ["D2-TOK-CASE", "literal=alpha"]},
 {"id": "regress-case-sensitive-nb", "kind": "break", "edits": [(D, 'starts_with_ignore_ascii_case(slice, "nb")', 'slice.starts_with("nb")')], "expect": ["D2-TOK-CASE", "literal=nb"]},
 {"id": "regress-letters-case-sensitive", "kind": "break", "edits": [(D, "version.push(c.to_ascii_lowercase() as i64);", "version.push(c as i64);")], "expect": ["D2-TOK-CASE", "letters"]},
 {"id": "helper-becomes-case-sensitive", "kind": "break", "edits": [(D, ".is_some_and(|p| p.eq_ignore_ascii_case(prefix.as_bytes()))", ".is_some_and(|p| p == prefix.as_bytes())")], "expect": ["D2-TOK-CASE"]},
 {"id": "beta-weight-minus-one", "kind": "break", "edits": [(D, "                version.push(-2);\n                idx += 4;", "                version.push(-1);\n                idx += 4;")], "expect": ["D1-TOK-TABLE", "literal=beta"]},
 {"id": "alpha-advance-four", "kind": "break", "edits": [(D, "                version.push(-3);\n                idx += 5;", "                version.push(-3);\n                idx += 4;")], "expect": ["D1-TOK-TABLE", "literal=alpha"]},
 {"id": "underscore-not-separator", "kind": "break", "edits": [(D, "if c == '.' || c == '_' {", "if c == '.' {")], "expect": ["D1-TOK-TABLE"]},
 {"id": "dash-is-separator", "kind": "break", "edits": [(D, "if c == '.' || c == '_' {", "if c == '.' || c == '_' || c == '-' {")], "expect": ["D1-TOK-TABLE"]},
 {"id": "nb-pushes-component", "kind": "break", "edits": [(D, "                pkgrevision = nbstr.parse::<i64>().unwrap_or(0);", "                pkgrevision = nbstr.parse::<i64>().unwrap_or(0);\n                version.push(0);")], "expect": ["D1-TOK-TABLE", "literal=nb"]},
 {"id": "nb-first-wins", "kind": "break", "edits": [(D, "                pkgrevision = nbstr.parse::<i64>().unwrap_or(0);", "                if pkgrevision == 0 {\n                    pkgrevision = nbstr.parse::<i64>().unwrap_or(0);\n                }")], "expect": ["D1-"]},
 {"id": "letters-before-modifiers", "kind": "break",
  "edits": [(D, "            /*\n             * Supported modifiers and their weightings so that they are ordered\n             * correctly.\n             */\n", "            if c == 'r' || c == 'R' {\n                version.push(0);\n                version.push(c.to_ascii_lowercase() as i64);\n                idx += 1;\n                continue;\n            }\n")], "expect": ["D1-"]},
 {"id": "other-char-advances-one-byte", "kind": "break", "edits": [(D, "                idx += c.len_utf8();", "                idx += 1;")], "expect": ["D1-TOK-TABLE", "row=other"]},
 {"id": "letter-without-leading-zero", "kind": "break", "edits": [(D, "                version.push(0);\n                version.push(c.to_ascii_lowercase() as i64);", "                version.push(c.to_ascii_lowercase() as i64);")], "expect": ["D1-TOK-TABLE", "row=letter"]},
 {"id": "digit-run-as-i32", "kind": "break", "edits": [(D, "version.push(numstr.parse::<i64>().unwrap_or(i64::MAX));", "version.push(numstr.parse::<i32>().unwrap_or(i32::MAX) as i64);")], "expect": ["D1-TOK-TABLE", "row=digits"]},
 {"id": "repair-letter-rank", "kind": "repair", "edits": [(D, "version.push(c.to_ascii_lowercase() as i64);", "version.push(c.to_ascii_lowercase() as i64 - 'a' as i64 + 1);")], "expect_gone": ["D3-TOK-RANK"]},
 {"id": "benign-lowercase-then-starts-with", "kind": "benign", "edits": [(D, 'starts_with_ignore_ascii_case(slice, "beta")', 'slice.to_ascii_lowercase().starts_with("beta")')]},
 {"id": "benign-rename-state-variables", "kind": "benign",
  "edits": [(D, "re:\\bidx\\b", "pos", 16), (D, "re:\\bpkgrevision = ", "rev = ", 2), (D, "let mut rev = 0;", "let mut rev: i64 = 0;"), (D, "            version,\n            pkgrevision,\n        }", "            version,\n            pkgrevision: rev,\n        }")]},

 # helper extraction (behaviour-preserving): a function that did not exist when the rules were written is inlined by the evaluator
 {"id": "benign-digit-run-extracted-into-helper", "kind": "benign",
  "edits": [(D, "re:slice\\.chars\\(\\)\\.take_while\\(char::is_ascii_digit\\)\\.collect\\(\\);", "digit_run(slice);", 2),
            (D, "impl DeweyVersion {\n", "fn digit_run(s: &str) -> String {\n    s.chars().take_while(char::is_ascii_digit).collect()\n}\n\nimpl DeweyVersion {\n")]},

 # probes: small semantic tweaks written by hand (each compiles and passes the pinned tests)
 {"id": "probe-digit-run-unicode-numeric", "kind": "break", "edits": [(D, "re:slice\\.chars\\(\\)\\.take_while\\(char::is_ascii_digit\\)\\.collect\\(\\);", "slice.chars().take_while(|c| c.is_numeric()).collect();", 2)], "expect": ["D1-"]},
 {"id": "probe-digit-run-hexdigits", "kind": "break", "edits": [(D, "re:slice\\.chars\\(\\)\\.take_while\\(char::is_ascii_digit\\)\\.collect\\(\\);", "slice.chars().take_while(char::is_ascii_hexdigit).collect();", 2)], "expect": ["D1-"]},
 {"id": "probe-dot-pushes-one", "kind": "break", "edits": [(D, "if c == '.' || c == '_' {\n                version.push(0);", "if c == '.' || c == '_' {\n                version.push(1);")], "expect": ["D1-TOK-TABLE"]},
 # the table-driven spelling of the modifier arms (benign/dewey-1) and its one-line breakages
 {"id": "table-form-benign", "kind": "benign", "edits": [{"patch": "/verif/benign/dewey-1/patch.diff"}]},
 {"id": "table-form-wrong-weight", "kind": "break", "edits": [{"patch": "/verif/benign/dewey-1/patch.diff"}, (D, '("rc", -1)', '("rc", -2)')], "expect": ["D1-TOK-TABLE@dewey::DeweyVersion::new#literal=rc"]},
 {"id": "table-form-missing-entry", "kind": "break", "edits": [{"patch": "/verif/benign/dewey-1/patch.diff"}, (D, 'const MODIFIERS: [(&str, i64); 5] =\n    [("alpha", -3), ("beta", -2), ("rc", -1), ("pre", -1), ("pl", 0)];', 'const MODIFIERS: [(&str, i64); 4] =\n    [("alpha", -3), ("beta", -2), ("rc", -1), ("pl", 0)];')], "expect": ["D1-TOK-TABLE@dewey::DeweyVersion::new#literal=pre"]},
 {"id": "table-form-extra-entry", "kind": "break", "edits": [{"patch": "/verif/benign/dewey-1/patch.diff"}, (D, 'const MODIFIERS: [(&str, i64); 5] =\n    [("alpha", -3), ("beta", -2), ("rc", -1), ("pre", -1), ("pl", 0)];', 'const MODIFIERS: [(&str, i64); 6] =\n    [("alpha", -3), ("beta", -2), ("rc", -1), ("pre", -1), ("pl", 0), ("dev", -4)];')], "expect": ["D1-TOK-TABLE@dewey::DeweyVersion::new#no-extra-literals"]},
 {"id": "table-form-advance-off-by-one", "kind": "break", "edits": [{"patch": "/verif/benign/dewey-1/patch.diff"}, (D, "idx += name.len();", "idx += name.len() + 1;")], "expect": ["D1-TOK-TABLE@dewey::DeweyVersion::new#literal="]},
 {"id": "table-form-pushes-other-value", "kind": "break", "edits": [{"patch": "/verif/benign/dewey-1/patch.diff"}, (D, "version.push(*weight);", "version.push(*weight - 1);")], "expect": ["D1-TOK-TABLE@dewey::DeweyVersion::new#literal="]},
 {"id": "table-form-case-sensitive", "kind": "break", "edits": [{"patch": "/verif/benign/dewey-1/patch.diff"}, (D, ".find(|(name, _)| starts_with_ignore_ascii_case(slice, name));", ".find(|(name, _)| slice.starts_with(name));")], "expect": ["D2-TOK-CASE"]},
 {"id": "table-form-shadowed-entry", "kind": "break", "edits": [{"patch": "/verif/benign/dewey-1/patch.diff"}, (D, '("pre", -1), ("pl", 0)]', '("p", 0), ("pre", -1)]'), (D, "[(&str, i64); 5]", "[(&str, i64); 5]")], "expect": ["D1-TOK-TABLE"]},
 {"id": "table-form-tests-wrong-text", "kind": "break", "edits": [{"patch": "/verif/benign/dewey-1/patch.diff"}, (D, ".find(|(name, _)| starts_with_ignore_ascii_case(slice, name));", ".find(|(name, _)| starts_with_ignore_ascii_case(s, name));")], "expect": ["D1-"]},

 {"id": "probe-literal-tested-on-whole-input", "kind": "break", "edits": [(D, 'if starts_with_ignore_ascii_case(slice, "alpha") {', 'if starts_with_ignore_ascii_case(s, "alpha") {')], "expect": ["D1-"]},


 # nb row as leading_digits(&slice[2..]) with idx += 2 + nbstr.len()
 {"id": "nb-nested-tail-benign", "kind": "benign", "edits": [{"patch": "/verif/benign/h7-dewey-1/patch.diff"}]},
 {"id": "nb-nested-tail-digits-from-cursor", "kind": "break", "edits": [{"patch": "/verif/benign/h7-dewey-1/patch.diff"}, ("src/dewey.rs", "let nbstr = leading_digits(&slice[2..]);", "let nbstr = leading_digits(&slice[1..]);")], "expect": ["D1-TOK-TABLE"]},
 {"id": "nb-nested-tail-advance-without-marker", "kind": "break", "edits": [{"patch": "/verif/benign/h7-dewey-1/patch.diff"}, ("src/dewey.rs", "idx += 2 + nbstr.len();", "idx += 1 + nbstr.len();")], "expect": ["D1-"]},
]
