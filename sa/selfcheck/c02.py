D = "src/dewey.rs"; P = "src/pattern.rs"
MUTANTS = [
 {"id": "scan-ge-recorded-as-gt", "kind": "break", "edits": [(D, "deweyops.push((index, index + 2, DeweyOp::GE))", "deweyops.push((index, index + 2, DeweyOp::GT))")], "expect": ["D1-SCAN"]},
 {"id": "scan-le-version-start-off-by-one", "kind": "break", "edits": [(D, "deweyops.push((index, index + 2, DeweyOp::LE))", "deweyops.push((index, index + 1, DeweyOp::LE))")], "expect": ["D1-SCAN"]},
 {"id": "validate-accepts-lt-lt", "kind": "break", "edits": [(D, "(DeweyOp::GT | DeweyOp::GE, DeweyOp::LT | DeweyOp::LE) => {}", "(DeweyOp::GT | DeweyOp::GE | DeweyOp::LT, DeweyOp::LT | DeweyOp::LE) => {}")], "expect": ["D1-VALIDATE"]},
 {"id": "validate-accepts-three-ops", "kind": "break",
  "edits": [(D, "            3.. => {\n                return Err(DeweyError {\n                    pos: deweyops[2].0,\n                    msg: \"Too many dewey operators found\",\n                })\n            }", "            3.. => {\n                let p = &pattern[deweyops[0].1..deweyops[1].0];\n                matches.push(DeweyMatch::new(&deweyops[0].2, p)?);\n            }")], "expect": ["D1-VALIDATE"]},
 {"id": "second-bound-uses-first-op", "kind": "break", "edits": [(D, "matches.push(DeweyMatch::new(&deweyops[1].2, p)?);", "matches.push(DeweyMatch::new(&deweyops[0].2, p)?);")], "expect": ["D1-SLICES"]},
 {"id": "first-bound-runs-to-end", "kind": "break", "edits": [(D, "let p = &pattern[deweyops[0].1..deweyops[1].0];", "let p = &pattern[deweyops[0].1..pattern.len()];")], "expect": ["D1-SLICES"]},
 {"id": "base-includes-operator", "kind": "break", "edits": [(D, "let pkgname = pattern[0..deweyops[0].0].to_string();", "let pkgname = pattern[0..deweyops[0].1].to_string();")], "expect": ["D1-SLICES"]},
 {"id": "matches-base-prefix", "kind": "break", "edits": [(D, "if v[1] != self.pkgname {", "if !v[1].starts_with(self.pkgname.as_str()) {")], "expect": ["D2-BASE-EQ"]},
 {"id": "matches-base-case-insensitive", "kind": "break", "edits": [(D, "if v[1] != self.pkgname {", "if !v[1].eq_ignore_ascii_case(&self.pkgname) {")], "expect": ["D2-BASE-EQ"]},
 {"id": "matches-no-dash-uses-empty-version", "kind": "break", "edits": [(D, "        if v.len() != 2 {\n            return false;\n        }\n        if v[1] != self.pkgname {", "        if v.len() != 2 {\n            return pkg == self.pkgname;\n        }\n        if v[1] != self.pkgname {")], "expect": ["D2-EARLY-FALSE"]},
 {"id": "pattern-dewey-error-becomes-simple", "kind": "break",
  "edits": [(P, "let dewey = Some(Dewey::new(pattern)?);", "let dewey = Dewey::new(pattern).ok();")], "expect": ["D4-PATTERN-AGREES"]},
 {"id": "bound-version-from-whole-pattern", "kind": "break", "edits": [(D, "let version = DeweyVersion::new(pattern);\n        Ok(DeweyMatch {", "let version = DeweyVersion::new(pattern.trim_start_matches('='));\n        Ok(DeweyMatch {")], "expect": ["D1-BOUND"]},
 {"id": "trivial-lower-bound-dropped", "kind": "break", "edits": [(D, "        let pkgname = pattern[0..deweyops[0].0].to_string();", "        if matches.len() == 2 && matches[0].version.version.is_empty() {\n            matches.remove(0);\n        }\n        let pkgname = pattern[0..deweyops[0].0].to_string();")], "expect": ["D1-BOUNDS-KEPT"]},

 {"id": "benign-name-split-extracted-into-helper", "kind": "benign",
  "edits": [(D, "        let v: Vec<&str> = pkg.rsplitn(2, '-').collect();\n        if v.len() != 2 {\n            return false;\n        }\n        if v[1] != self.pkgname {\n            return false;\n        }\n        let pkgver = DeweyVersion::new(v[0]);",
                "        let Some((base, ver)) = split_pkgname(pkg) else {\n            return false;\n        };\n        if base != self.pkgname {\n            return false;\n        }\n        let pkgver = DeweyVersion::new(ver);"),
            (D, "impl Dewey {\n", "fn split_pkgname(pkg: &str) -> Option<(&str, &str)> {\n    let v: Vec<&str> = pkg.rsplitn(2, '-').collect();\n    if v.len() != 2 {\n        return None;\n    }\n    Some((v[1], v[0]))\n}\n\nimpl Dewey {\n")]},

 {"id": "probe-base-compared-case-insensitively", "kind": "break", "edits": [(D, "        if v[1] != self.pkgname {\n            return false;\n        }", "        if !v[1].eq_ignore_ascii_case(&self.pkgname) {\n            return false;\n        }")], "expect": ["D2-"]},
 {"id": "probe-base-prefix-compare", "kind": "break", "edits": [(D, "        if v[1] != self.pkgname {\n            return false;\n        }", "        if !v[1].starts_with(self.pkgname.as_str()) {\n            return false;\n        }")], "expect": ["D2-"]},
 {"id": "probe-no-dash-matches-empty-version", "kind": "break", "edits": [(D, "        if v.len() != 2 {\n            return false;\n        }\n        if v[1] != self.pkgname {", "        if v.len() != 2 {\n            return pkg == self.pkgname && self.matches.is_empty();\n        }\n        if v[1] != self.pkgname {")], "expect": ["D2-"]},
 {"id": "probe-two-ops-same-direction-accepted-when-equal-text", "kind": "break", "edits": [(D, "(DeweyOp::GT | DeweyOp::GE, DeweyOp::LT | DeweyOp::LE) => {}", "(DeweyOp::GT | DeweyOp::GE, DeweyOp::LT | DeweyOp::LE) => {}\n                    (a, b) if a == b => {}")], "expect": ["D1-VALIDATE"]},
 # slice-pattern / vector-literal spellings of the operator validation (benign/dewey-2, benign/m-dewey-2) and their one-line breakages
 {"id": "slicepat-form-benign", "kind": "benign", "edits": [{"patch": "/verif/benign/m-dewey-2/patch.diff"}]},
 {"id": "veclit-form-benign", "kind": "benign", "edits": [{"patch": "/verif/benign/dewey-2/patch.diff"}]},
 {"id": "slicepat-oplen-swapped", "kind": "break", "edits": [{"patch": "/verif/benign/m-dewey-2/patch.diff"}, (D, "let oplen = if inclusive { 2 } else { 1 };", "let oplen = if inclusive { 1 } else { 2 };")], "expect": ["D1-SCAN"]},
 {"id": "slicepat-eq-tested-at-operator", "kind": "break", "edits": [{"patch": "/verif/benign/m-dewey-2/patch.diff"}, (D, "let inclusive = pattern[index + 1..].starts_with('=');", "let inclusive = pattern[index..].starts_with('=');")], "expect": ["D1-SCAN"]},
 {"id": "slicepat-eq-tested-anywhere-after", "kind": "break", "edits": [{"patch": "/verif/benign/m-dewey-2/patch.diff"}, (D, "let inclusive = pattern[index + 1..].starts_with('=');", "let inclusive = pattern[index + 1..].contains('=');")], "expect": ["D1-SCAN"]},
 {"id": "slicepat-op-arms-swapped", "kind": "break", "edits": [{"patch": "/verif/benign/m-dewey-2/patch.diff"}, (D, '(">", true) => DeweyOp::GE,\n                ("<", true) => DeweyOp::LE,', '(">", true) => DeweyOp::LE,\n                ("<", true) => DeweyOp::GE,')], "expect": ["D1-SCAN"]},
 {"id": "slicepat-second-bound-from-operator", "kind": "break", "edits": [{"patch": "/verif/benign/m-dewey-2/patch.diff"}, (D, "let p = &pattern[*vstart2..];", "let p = &pattern[*start2..];")], "expect": ["D1-SLICES"]},
 {"id": "slicepat-accepts-three", "kind": "break", "edits": [{"patch": "/verif/benign/m-dewey-2/patch.diff"}, (D, "[(start1, vstart1, op1), (start2, vstart2, op2)] => {", "[(start1, vstart1, op1), (start2, vstart2, op2), ..] => {")], "expect": ["D1-VALIDATE"]},
 {"id": "veclit-bounds-reordered", "kind": "break", "edits": [{"patch": "/verif/benign/dewey-2/patch.diff"}, (D, "vec![lo, hi]", "vec![hi, lo]")], "expect": ["D1-BOUNDS-KEPT"]},
 {"id": "veclit-bound-dropped", "kind": "break", "edits": [{"patch": "/verif/benign/dewey-2/patch.diff"}, (D, "vec![lo, hi]", "{ let _ = hi; vec![lo] }")], "expect": ["D1-BOUNDS-KEPT"]},
 {"id": "veclit-order-check-weakened", "kind": "break", "edits": [{"patch": "/verif/benign/dewey-2/patch.diff"}, (D, "if !matches!(lo_op, DeweyOp::GT | DeweyOp::GE)\n                    || !matches!(hi_op, DeweyOp::LT | DeweyOp::LE)", "if !matches!(lo_op, DeweyOp::GT | DeweyOp::GE)\n                    && !matches!(hi_op, DeweyOp::LT | DeweyOp::LE)")], "expect": ["D1-VALIDATE"]},
 {"id": "veclit-eq-byte-wrong", "kind": "break", "edits": [{"patch": "/verif/benign/dewey-2/patch.diff"}, (D, "get(index + 1) == Some(&b'=')", "get(index + 1) == Some(&b'-')")], "expect": ["D1-SCAN"]},
 {"id": "veclit-first-bound-to-end", "kind": "break", "edits": [{"patch": "/verif/benign/dewey-2/patch.diff"}, (D, "&pattern[*lo_vstart..*hi_start]", "&pattern[*lo_vstart..]")], "expect": ["D1-SLICES"]},

 # operator records as a named struct (benign/h3-dewey-2) and its one-line breakages
 {"id": "opspan-struct-benign", "kind": "benign", "edits": [{"patch": "/verif/benign/h3-dewey-2/patch.diff"}]},
 {"id": "opspan-version-off-by-one", "kind": "break", "edits": [{"patch": "/verif/benign/h3-dewey-2/patch.diff"}, ("src/dewey.rs", "let version = start + if inclusive { 2 } else { 1 };", "let version = start + if inclusive { 1 } else { 1 };")], "expect": ["D1-SCAN"]},
 {"id": "opspan-fields-swapped-at-push", "kind": "break", "edits": [{"patch": "/verif/benign/h3-dewey-2/patch.diff"}, ("src/dewey.rs", "deweyops.push(OpSpan { start, version, op });", "deweyops.push(OpSpan { start: version, version: start, op });")], "expect": ["D1-"]},
 {"id": "opspan-upper-bound-from-lower-record", "kind": "break", "edits": [{"patch": "/verif/benign/h3-dewey-2/patch.diff"}, ("src/dewey.rs", "let p = &pattern[upper.version..pattern.len()];", "let p = &pattern[lower.version..pattern.len()];")], "expect": ["D1-SLICES"]},


 # the operator scan with has_eq = pattern[index + 1..].starts_with('=') and version_start = index + 1 + usize::from(has_eq)
 {"id": "has-eq-form-benign", "kind": "benign", "edits": [{"patch": "/verif/benign/h7-dewey-2/patch.diff"}]},
 {"id": "has-eq-form-start-ignores-eq", "kind": "break", "edits": [{"patch": "/verif/benign/h7-dewey-2/patch.diff"}, ("src/dewey.rs", "let version_start = index + 1 + usize::from(has_eq);", "let version_start = index + 1;")], "expect": ["D1-SCAN"]},
 {"id": "has-eq-form-le-is-lt", "kind": "break", "edits": [{"patch": "/verif/benign/h7-dewey-2/patch.diff"}, ("src/dewey.rs", '                ("<", true) => DeweyOp::LE,', '                ("<", true) => DeweyOp::LT,')], "expect": ["D1-SCAN"]},
 {"id": "has-eq-form-tests-two-ahead", "kind": "break", "edits": [{"patch": "/verif/benign/h7-dewey-2/patch.diff"}, ("src/dewey.rs", "let has_eq = pattern[index + 1..].starts_with('=');", "let has_eq = pattern[index..].contains('=');")], "expect": ["D1-SCAN"]},
]
