D = "src/dewey.rs"
MUTANTS = [
 {"id": "greater-branch-operands-swapped", "kind": "break",
  "edits": [(D, "return dewey_test(lhs.version[i], op, 0);", "return dewey_test(0, op, lhs.version[i]);")],
  "expect": ["CMP-"]},
 {"id": "less-branch-compares-lhs", "kind": "break",
  "edits": [(D, "                if 0 != rhs.version[i] {\n                    return dewey_test(0, op, rhs.version[i]);", "                if 0 != rhs.version[i] {\n                    return dewey_test(rhs.version[i], op, 0);")],
  "expect": ["CMP-3"]},
 {"id": "ge-becomes-gt-on-padding", "kind": "break",
  "edits": [(D, "return dewey_test(0, op, rhs.version[i]);", "return dewey_test(0, &DeweyOp::GT, rhs.version[i]);")],
  "expect": ["CMP-"]},
 {"id": "op-table-le-is-lt", "kind": "break",
  "edits": [(D, "DeweyOp::LE => lhs <= rhs,", "DeweyOp::LE => lhs < rhs,")],
  "expect": ["CMP-2"]},
 {"id": "op-table-operands-swapped", "kind": "break",
  "edits": [(D, "DeweyOp::GT => lhs > rhs,", "DeweyOp::GT => rhs > lhs,")],
  "expect": ["CMP-2"]},
 {"id": "prefix-no-inequality-guard", "kind": "break",
  "edits": [(D, "        if lhs.version[i] != rhs.version[i] {\n            return dewey_test(lhs.version[i], op, rhs.version[i]);\n        }", "            if lhs.version[i] > rhs.version[i] || i + 1 == std::cmp::min(llen, rlen) {\n                return dewey_test(lhs.version[i], op, rhs.version[i]);\n            }")],
  "expect": ["CMP-4"]},
 {"id": "revision-before-padding", "kind": "break",
  "edits": [(D, "        Ordering::Less => {\n            for i in llen..rlen {", "        Ordering::Less => {\n            if lhs.pkgrevision != rhs.pkgrevision {\n                return dewey_test(lhs.pkgrevision, op, rhs.pkgrevision);\n            }\n            for i in llen..rlen {")],
  "expect": ["CMP-5"]},
 {"id": "special-case-equal-for-ge", "kind": "break",
  "edits": [(D, "    let llen = lhs.version.len();\n    let rlen = rhs.version.len();\n    for i in 0..std::cmp::min(llen, rlen) {", "    let llen = lhs.version.len();\n    let rlen = rhs.version.len();\n    if *op == DeweyOp::GE && llen > rlen {\n        return true;\n    }\n    for i in 0..std::cmp::min(llen, rlen) {")],
  "expect": ["CMP-1"]},
 {"id": "padding-range-off-by-one", "kind": "break",
  "edits": [(D, "for i in rlen..llen {", "for i in rlen + 1..llen {")],
  "expect": ["CMP-4"]},
 {"id": "matches-any-bound", "kind": "break",
  "edits": [(D, "        for m in &self.matches {\n            if !dewey_cmp(&pkgver, &m.op, &m.version) {\n                return false;\n            }\n        }\n        true", "        for m in &self.matches {\n            if dewey_cmp(&pkgver, &m.op, &m.version) {\n                return true;\n            }\n        }\n        false")],
  "expect": ["D-CONJUNCTION"]},
 {"id": "matches-checks-first-bound-only", "kind": "break",
  "edits": [(D, "        for m in &self.matches {\n            if !dewey_cmp(&pkgver, &m.op, &m.version) {\n                return false;\n            }\n        }\n        true", "        for m in &self.matches {\n            return dewey_cmp(&pkgver, &m.op, &m.version);\n        }\n        true")],
  "expect": ["D-CONJUNCTION"]},
 {"id": "benign-eq-guard-form", "kind": "benign",
  "edits": [(D, "        if lhs.version[i] != rhs.version[i] {\n            return dewey_test(lhs.version[i], op, rhs.version[i]);\n        }", "            if lhs.version[i] == rhs.version[i] {\n                continue;\n            }\n            return dewey_test(lhs.version[i], op, rhs.version[i]);")]},

 {"id": "benign-component-access-extracted-into-helper", "kind": "benign",
  "edits": [(D, "re:\\b(lhs|rhs)\\.version\\[i\\]", "component(\\1, i)", 8),
            (D, "fn dewey_test(lhs: i64", "fn component(v: &DeweyVersion, i: usize) -> i64 {\n    v.version[i]\n}\n\nfn dewey_test(lhs: i64")]},

 {"id": "probe-common-prefix-uses-max", "kind": "break", "edits": [(D, "for i in 0..std::cmp::min(llen, rlen) {", "for i in 0..std::cmp::max(llen, rlen).min(llen).min(rlen.saturating_sub(1)) {")], "expect": ["CMP-"]},
 {"id": "probe-revision-compared-first", "kind": "break", "edits": [(D, "    let llen = lhs.version.len();\n    let rlen = rhs.version.len();\n", "    let llen = lhs.version.len();\n    let rlen = rhs.version.len();\n    if lhs.pkgrevision != rhs.pkgrevision && llen == rlen && llen == 0 {\n        return dewey_test(rhs.pkgrevision, op, lhs.pkgrevision);\n    }\n")], "expect": ["CMP-"]},

 {"id": "probe-test-ge-as-gt-on-zero", "kind": "break", "edits": [(D, "        DeweyOp::GE => lhs >= rhs,", "        DeweyOp::GE => lhs > rhs || (lhs == rhs && lhs != 0) || (lhs == 0 && rhs == 0),")], "expect": []},
 {"id": "probe-test-le-strict-for-negative", "kind": "break", "edits": [(D, "        DeweyOp::LE => lhs <= rhs,", "        DeweyOp::LE => lhs < rhs || (lhs == rhs && lhs >= 0),")], "expect": ["CMP-2"]},
 # the zero-padded lock-step spelling of dewey_cmp (benign/dewey-3) and its one-line breakages
 {"id": "padded-form-benign", "kind": "benign", "edits": [{"patch": "/verif/benign/dewey-3/patch.diff"}]},
 {"id": "padded-form-min-instead-of-max", "kind": "break", "edits": [{"patch": "/verif/benign/dewey-3/patch.diff"}, (D, "let len = std::cmp::max(lhs.version.len(), rhs.version.len());", "let len = std::cmp::min(lhs.version.len(), rhs.version.len());")], "expect": ["CMP-4"]},
 {"id": "padded-form-pads-with-one", "kind": "break", "edits": [{"patch": "/verif/benign/dewey-3/patch.diff"}, (D, "let r = rhs.version.get(i).copied().unwrap_or(0);", "let r = rhs.version.get(i).copied().unwrap_or(1);")], "expect": ["CMP-"]},
 {"id": "padded-form-both-from-lhs", "kind": "break", "edits": [{"patch": "/verif/benign/dewey-3/patch.diff"}, (D, "let r = rhs.version.get(i).copied().unwrap_or(0);", "let r = lhs.version.get(i).copied().unwrap_or(0);")], "expect": ["CMP-3"]},
 {"id": "padded-form-skips-first", "kind": "break", "edits": [{"patch": "/verif/benign/dewey-3/patch.diff"}, (D, "    for i in 0..len {\n        let l = lhs.version.get(i)", "    for i in 1..len {\n        let l = lhs.version.get(i)")], "expect": ["CMP-4"]},
 {"id": "padded-form-guard-greater", "kind": "break", "edits": [{"patch": "/verif/benign/dewey-3/patch.diff"}, (D, "        if l != r {\n            return dewey_test(l, op, r);", "        if l > r {\n            return dewey_test(l, op, r);")], "expect": ["CMP-4"]},
 {"id": "padded-form-operands-swapped", "kind": "break", "edits": [{"patch": "/verif/benign/dewey-3/patch.diff"}, (D, "            return dewey_test(l, op, r);", "            return dewey_test(r, op, l);")], "expect": ["CMP-3"]},
 {"id": "padded-form-right-one-ahead", "kind": "break", "edits": [{"patch": "/verif/benign/dewey-3/patch.diff"}, (D, "let r = rhs.version.get(i).copied().unwrap_or(0);", "let r = rhs.version.get(i + 1).copied().unwrap_or(0);")], "expect": ["CMP-4"]},
 {"id": "padded-form-revision-inside-loop", "kind": "break", "edits": [{"patch": "/verif/benign/dewey-3/patch.diff"}, (D, "        if l != r {\n            return dewey_test(l, op, r);\n        }", "        if l != r {\n            return dewey_test(l, op, r);\n        }\n        if lhs.pkgrevision != rhs.pkgrevision {\n            return dewey_test(lhs.pkgrevision, op, rhs.pkgrevision);\n        }")], "expect": ["CMP-5"]},

 # the iterator spelling of dewey_cmp (benign/m-dewey-3: zip for the common prefix, first non-zero of each tail) and its one-line breakages
 {"id": "zip-form-benign", "kind": "benign", "edits": [{"patch": "/verif/benign/m-dewey-3/patch.diff"}]},
 {"id": "zip-form-operands-swapped", "kind": "break", "edits": [{"patch": "/verif/benign/m-dewey-3/patch.diff"}, (D, "            return dewey_test(l, op, r);\n        }\n    }\n    /* At most", "            return dewey_test(r, op, l);\n        }\n    }\n    /* At most")], "expect": ["CMP-3"]},
 {"id": "zip-form-tail-from-start", "kind": "break", "edits": [{"patch": "/verif/benign/m-dewey-3/patch.diff"}, (D, "rhs.version[common..].iter().find(|&&r| r != 0)", "rhs.version[..].iter().find(|&&r| r != 0)")], "expect": ["CMP-"]},
 {"id": "zip-form-tail-predicate-positive", "kind": "break", "edits": [{"patch": "/verif/benign/m-dewey-3/patch.diff"}, (D, "lhs.version[common..].iter().find(|&&l| l != 0)", "lhs.version[common..].iter().find(|&&l| l > 0)")], "expect": ["CMP-"]},
 {"id": "zip-form-tail-sides-crossed", "kind": "break", "edits": [{"patch": "/verif/benign/m-dewey-3/patch.diff"}, (D, "    if let Some(&r) = rhs.version[common..].iter().find(|&&r| r != 0) {\n        return dewey_test(0, op, r);", "    if let Some(&r) = rhs.version[common..].iter().find(|&&r| r != 0) {\n        return dewey_test(r, op, 0);")], "expect": ["CMP-"]},
 {"id": "zip-form-lhs-tail-dropped", "kind": "break", "edits": [{"patch": "/verif/benign/m-dewey-3/patch.diff"}, (D, "    if let Some(&l) = lhs.version[common..].iter().find(|&&l| l != 0) {\n        return dewey_test(l, op, 0);\n    }\n", "")], "expect": ["CMP-"]},
 {"id": "zip-form-zip-skips-first", "kind": "break", "edits": [{"patch": "/verif/benign/m-dewey-3/patch.diff"}, (D, "lhs.version.iter().zip(&rhs.version)", "lhs.version.iter().skip(1).zip(&rhs.version)")], "expect": ["CMP-"]},
 {"id": "zip-form-zip-same-side", "kind": "break", "edits": [{"patch": "/verif/benign/m-dewey-3/patch.diff"}, (D, "lhs.version.iter().zip(&rhs.version)", "lhs.version.iter().zip(&lhs.version)")], "expect": ["CMP-"]},
 {"id": "zip-form-tail-last-nonzero", "kind": "break", "edits": [{"patch": "/verif/benign/m-dewey-3/patch.diff"}, (D, "rhs.version[common..].iter().find(|&&r| r != 0)", "rhs.version[common..].iter().rev().find(|&&r| r != 0)")], "expect": ["CMP-"]},
 {"id": "zip-form-tail-before-prefix", "kind": "break", "edits": [{"patch": "/verif/benign/m-dewey-3/patch.diff"}, (D, "    for (&l, &r) in lhs.version.iter().zip(&rhs.version) {", "    if let Some(&r) = rhs.version[std::cmp::min(lhs.version.len(), rhs.version.len())..].iter().find(|&&r| r != 0) {\n        return dewey_test(0, op, r);\n    }\n    for (&l, &r) in lhs.version.iter().zip(&rhs.version) {")], "expect": ["CMP-"]},

 # dewey_test through cmp() + matches!, dewey_cmp through a pair-selector helper (benign/h3-dewey-3) and their one-line breakages
 {"id": "selector-helper-benign", "kind": "benign", "edits": [{"patch": "/verif/benign/h3-dewey-3/patch.diff"}]},
 {"id": "selector-table-ge-without-equal", "kind": "break", "edits": [{"patch": "/verif/benign/h3-dewey-3/patch.diff"}, ("src/dewey.rs", "(DeweyOp::GE, Ordering::Greater | Ordering::Equal)", "(DeweyOp::GE, Ordering::Greater)")], "expect": ["CMP-2"]},
 {"id": "selector-table-lt-gt-swapped", "kind": "break", "edits": [{"patch": "/verif/benign/h3-dewey-3/patch.diff"}, ("src/dewey.rs", "| (DeweyOp::LT, Ordering::Less)", "| (DeweyOp::LT, Ordering::Greater)")], "expect": ["CMP-2"]},
 {"id": "selector-cmp-operands-swapped", "kind": "break", "edits": [{"patch": "/verif/benign/h3-dewey-3/patch.diff"}, ("src/dewey.rs", "(op, lhs.cmp(&rhs)),", "(op, rhs.cmp(&lhs)),")], "expect": ["CMP-2"]},
 {"id": "selector-helper-min-instead-of-max", "kind": "break", "edits": [{"patch": "/verif/benign/h3-dewey-3/patch.diff"}, ("src/dewey.rs", "for i in 0..std::cmp::max(lhs.len(), rhs.len()) {", "for i in 0..std::cmp::min(lhs.len(), rhs.len()) {")], "expect": ["CMP-4"]},
 {"id": "selector-helper-pair-swapped", "kind": "break", "edits": [{"patch": "/verif/benign/h3-dewey-3/patch.diff"}, ("src/dewey.rs", "            return Some((l, r));", "            return Some((r, l));")], "expect": ["CMP-3"]},
 {"id": "selector-helper-args-swapped", "kind": "break", "edits": [{"patch": "/verif/benign/h3-dewey-3/patch.diff"}, ("src/dewey.rs", "first_difference(&lhs.version, &rhs.version)", "first_difference(&rhs.version, &lhs.version)")], "expect": ["CMP-"]},
 {"id": "selector-revision-fallback-swapped", "kind": "break", "edits": [{"patch": "/verif/benign/h3-dewey-3/patch.diff"}, ("src/dewey.rs", ".unwrap_or((lhs.pkgrevision, rhs.pkgrevision));", ".unwrap_or((rhs.pkgrevision, lhs.pkgrevision));")], "expect": ["CMP-"]},


 # the operator tokens are part of what C03 observes
 {"id": "le-token-selects-lt", "kind": "break", "edits": [("src/dewey.rs", "                    deweyops.push((index, index + 2, DeweyOp::LE))", "                    deweyops.push((index, index + 2, DeweyOp::LT))")], "expect": ["OPS-TOKENS"]},
 {"id": "ge-token-read-as-gt-then-garbage", "kind": "break", "edits": [("src/dewey.rs", '                (">", Some("=")) => {\n                    deweyops.push((index, index + 2, DeweyOp::GE))\n                }', '                (">", Some("=")) => {\n                    deweyops.push((index, index + 1, DeweyOp::GT))\n                }')], "expect": ["OPS-TOKENS"]},

 # zip for the common prefix, then the longer side's tail searched inside the length branch (tail cut at the other side's length)
 {"id": "branch-tail-find-benign", "kind": "benign", "edits": [{"patch": "/verif/benign/h5-dewey-2/patch.diff"}]},
 {"id": "branch-tail-find-operands-swapped", "kind": "break", "edits": [{"patch": "/verif/benign/h5-dewey-2/patch.diff"}, ("src/dewey.rs", "                return dewey_test(0, op, r);", "                return dewey_test(r, op, 0);")], "expect": ["CMP-3"]},
 {"id": "branch-tail-find-starts-one-late", "kind": "break", "edits": [{"patch": "/verif/benign/h5-dewey-2/patch.diff"}, ("src/dewey.rs", "rhs.version[llen..].iter().find(|&&r| r != 0)", "rhs.version[llen + 1..].iter().find(|&&r| r != 0)")], "expect": ["CMP-"]},
 {"id": "branch-tail-find-greater-arm-dropped", "kind": "break", "edits": [{"patch": "/verif/benign/h5-dewey-2/patch.diff"}, ("src/dewey.rs", "        Ordering::Greater => {\n            if let Some(&l) = lhs.version[rlen..].iter().find(|&&l| l != 0) {\n                return dewey_test(l, op, 0);\n            }\n        }\n        Ordering::Equal => {}", "        _ => {}")], "expect": ["CMP-"]},
 {"id": "branch-tail-find-finds-any-component", "kind": "break", "edits": [{"patch": "/verif/benign/h5-dewey-2/patch.diff"}, ("src/dewey.rs", "rhs.version[llen..].iter().find(|&&r| r != 0)", "rhs.version[llen..].iter().find(|&&r| r > 0)")], "expect": ["CMP-"]},
 {"id": "branch-tail-find-last-nonzero", "kind": "break", "edits": [{"patch": "/verif/benign/h5-dewey-2/patch.diff"}, ("src/dewey.rs", "rhs.version[llen..].iter().find(|&&r| r != 0)", "rhs.version[llen..].iter().rev().find(|&&r| r != 0)")], "expect": ["CMP-"]},

 # the tails as version.iter().skip(other_len).find(|x| x != 0)
 {"id": "skip-tail-benign", "kind": "benign", "edits": [{"patch": "/verif/benign/h7-dewey-3/patch.diff"}]},
 {"id": "skip-tail-skips-own-length", "kind": "break", "edits": [{"patch": "/verif/benign/h7-dewey-3/patch.diff"}, ("src/dewey.rs", "rhs.version.iter().skip(llen).find(|&&r| r != 0)", "rhs.version.iter().skip(rlen).find(|&&r| r != 0)")], "expect": ["CMP-"]},
 {"id": "skip-tail-one-too-many", "kind": "break", "edits": [{"patch": "/verif/benign/h7-dewey-3/patch.diff"}, ("src/dewey.rs", "rhs.version.iter().skip(llen).find(|&&r| r != 0)", "rhs.version.iter().skip(llen + 1).find(|&&r| r != 0)")], "expect": ["CMP-"]},
 {"id": "skip-tail-positive-only", "kind": "break", "edits": [{"patch": "/verif/benign/h7-dewey-3/patch.diff"}, ("src/dewey.rs", "lhs.version.iter().skip(rlen).find(|&&l| l != 0)", "lhs.version.iter().skip(rlen).find(|&&l| l > 0)")], "expect": ["CMP-"]},
 {"id": "skip-tail-operands-swapped", "kind": "break", "edits": [{"patch": "/verif/benign/h7-dewey-3/patch.diff"}, ("src/dewey.rs", "        return dewey_test(l, op, 0);", "        return dewey_test(0, op, l);")], "expect": ["CMP-3"]},

 # the common prefix as zip(..).find(|(l, r)| l != r), each tail as skip(other_len).find(nonzero) inside its length branch
 {"id": "zip-find-prefix-benign", "kind": "benign", "edits": [{"patch": "/verif/benign/h8-dewey-1/patch.diff"}]},
 {"id": "zip-find-prefix-finds-equal-pair", "kind": "break", "edits": [{"patch": "/verif/benign/h8-dewey-1/patch.diff"}, ("src/dewey.rs", ".find(|(l, r)| l != r);", ".find(|(l, r)| l == r);")], "expect": ["CMP-"]},
 {"id": "zip-find-prefix-operands-swapped", "kind": "break", "edits": [{"patch": "/verif/benign/h8-dewey-1/patch.diff"}, ("src/dewey.rs", "        return dewey_test(l, op, r);\n    }\n\n    /* Otherwise", "        return dewey_test(r, op, l);\n    }\n\n    /* Otherwise")], "expect": ["CMP-3"]},
 {"id": "zip-find-prefix-same-side-twice", "kind": "break", "edits": [{"patch": "/verif/benign/h8-dewey-1/patch.diff"}, ("src/dewey.rs", "        .zip(rhs.version.iter())", "        .zip(lhs.version.iter())")], "expect": ["CMP-"]},
 {"id": "zip-find-tail-not-searched", "kind": "break", "edits": [{"patch": "/verif/benign/h8-dewey-1/patch.diff"}, ("src/dewey.rs", "            if let Some(&r) = rhs.version.iter().skip(llen).find(nonzero) {\n                return dewey_test(0, op, r);\n            }\n", "")], "expect": ["CMP-"]},
 {"id": "zip-find-tail-skips-own-length", "kind": "break", "edits": [{"patch": "/verif/benign/h8-dewey-1/patch.diff"}, ("src/dewey.rs", "lhs.version.iter().skip(rlen).find(nonzero)", "lhs.version.iter().skip(llen).find(nonzero)")], "expect": ["CMP-"]},
 {"id": "zip-find-tails-in-swapped-branches", "kind": "break", "edits": [{"patch": "/verif/benign/h8-dewey-1/patch.diff"}, ("src/dewey.rs", "        Ordering::Less => {\n            if let", "        Ordering::Greater => {\n            if let"), ("src/dewey.rs", "        Ordering::Greater => {\n            if let Some(&l)", "        Ordering::Less => {\n            if let Some(&l)")], "expect": ["CMP-"]},

 # one padded lock-step search: (0..max(len)).map(|i| (component(lhs, i), component(rhs, i))).find(|(l, r)| l != r)
 {"id": "lockstep-find-benign", "kind": "benign", "edits": [{"patch": "/verif/benign/h9-dewey-3/patch.diff"}]},
 {"id": "lockstep-find-up-to-shorter-length", "kind": "break", "edits": [{"patch": "/verif/benign/h9-dewey-3/patch.diff"}, ("src/dewey.rs", "let len = std::cmp::max(lhs.version.len(), rhs.version.len());", "let len = std::cmp::min(lhs.version.len(), rhs.version.len());")], "expect": ["CMP-"]},
 {"id": "lockstep-find-padding-is-one", "kind": "break", "edits": [{"patch": "/verif/benign/h9-dewey-3/patch.diff"}, ("src/dewey.rs", "v.version.get(i).copied().unwrap_or(0)", "v.version.get(i).copied().unwrap_or(1)")], "expect": ["CMP-"]},
 {"id": "lockstep-find-same-side-twice", "kind": "break", "edits": [{"patch": "/verif/benign/h9-dewey-3/patch.diff"}, ("src/dewey.rs", ".map(|i| (component(lhs, i), component(rhs, i)))", ".map(|i| (component(lhs, i), component(lhs, i)))")], "expect": ["CMP-"]},
 {"id": "lockstep-find-sides-swapped", "kind": "break", "edits": [{"patch": "/verif/benign/h9-dewey-3/patch.diff"}, ("src/dewey.rs", ".map(|i| (component(lhs, i), component(rhs, i)))", ".map(|i| (component(rhs, i), component(lhs, i)))")], "expect": ["CMP-3"]},
 {"id": "lockstep-find-first-equal-pair", "kind": "break", "edits": [{"patch": "/verif/benign/h9-dewey-3/patch.diff"}, ("src/dewey.rs", "        .find(|(l, r)| l != r);\n    match differ", "        .find(|(l, r)| l == r);\n    match differ")], "expect": ["CMP-"]},
 {"id": "lockstep-find-last-differing-pair", "kind": "break", "edits": [{"patch": "/verif/benign/h9-dewey-3/patch.diff"}, ("src/dewey.rs", "    let differ = (0..len)\n        .map", "    let differ = (0..len)\n        .rev()\n        .map")], "expect": ["CMP-"]},
 {"id": "lockstep-find-shifted-index", "kind": "break", "edits": [{"patch": "/verif/benign/h9-dewey-3/patch.diff"}, ("src/dewey.rs", ".map(|i| (component(lhs, i), component(rhs, i)))", ".map(|i| (component(lhs, i), component(rhs, i + 1)))")], "expect": ["CMP-"]},

 # the tails through a first_nonzero(&version[common..]) helper (iter().copied().find(nonzero))
 {"id": "first-nonzero-helper-benign", "kind": "benign", "edits": [{"patch": "/verif/benign/h10-dewey-2/patch.diff"}]},
 {"id": "first-nonzero-helper-positive-only", "kind": "break", "edits": [{"patch": "/verif/benign/h10-dewey-2/patch.diff"}, ("src/dewey.rs", "components.iter().copied().find(|&n| n != 0)", "components.iter().copied().find(|&n| n > 0)")], "expect": ["CMP-"]},
 {"id": "first-nonzero-helper-last-nonzero", "kind": "break", "edits": [{"patch": "/verif/benign/h10-dewey-2/patch.diff"}, ("src/dewey.rs", "components.iter().copied().find(|&n| n != 0)", "components.iter().copied().rev().find(|&n| n != 0)")], "expect": ["CMP-"]},
 {"id": "first-nonzero-helper-tail-one-late", "kind": "break", "edits": [{"patch": "/verif/benign/h10-dewey-2/patch.diff"}, ("src/dewey.rs", "first_nonzero(&rhs.version[common..])", "first_nonzero(&rhs.version[(common + 1).min(rhs.version.len())..])")], "expect": ["CMP-"]},
 {"id": "first-nonzero-helper-operands-swapped", "kind": "break", "edits": [{"patch": "/verif/benign/h10-dewey-2/patch.diff"}, ("src/dewey.rs", "        return dewey_test(l, op, 0);", "        return dewey_test(0, op, l);")], "expect": ["CMP-3"]},

 # the bounds loop of Dewey::matches moved into a helper with its loop (spliced into matches() for judging)
 {"id": "bounds-loop-in-helper-benign", "kind": "benign", "edits": [{"patch": "/verif/benign/u-dewey-bounds-helper/patch.diff"}]},
 {"id": "bounds-loop-in-helper-any-bound", "kind": "break", "edits": [{"patch": "/verif/benign/u-dewey-bounds-helper/patch.diff"}, ("src/dewey.rs", "            if !dewey_cmp(pkgver, &m.op, &m.version) {\n                return false;\n            }\n        }\n        true", "            if dewey_cmp(pkgver, &m.op, &m.version) {\n                return true;\n            }\n        }\n        false")], "expect": ["D-CONJUNCTION"]},
 {"id": "bounds-loop-in-helper-first-bound-only", "kind": "break", "edits": [{"patch": "/verif/benign/u-dewey-bounds-helper/patch.diff"}, ("src/dewey.rs", "        for m in &self.matches {\n            if !dewey_cmp(pkgver,", "        for m in self.matches.iter().take(1) {\n            if !dewey_cmp(pkgver,")], "expect": ["D-CONJUNCTION"]},
 {"id": "bounds-loop-in-helper-result-ignored", "kind": "break", "edits": [{"patch": "/verif/benign/u-dewey-bounds-helper/patch.diff"}, ("src/dewey.rs", "        self.within_bounds(&pkgver)\n", "        self.within_bounds(&pkgver);\n        true\n")], "expect": ["D-CONJUNCTION"]},
]
