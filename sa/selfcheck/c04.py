P = "src/pattern.rs"
MUTANTS = [
 {"id": "regress-loop-over-every-open-brace", "kind": "break",
  "edits": [(P, "        if let Some(i) = pattern.rfind('{') {\n            let (first, rest) = pattern.split_at(i);", "        for (i, _) in\n            pattern.match_indices('{').collect::<Vec<_>>().iter().rev()\n        {\n            let (first, rest) = pattern.split_at(*i);")],
  "expect": ["D1-BRACE-PAIR"]},
 {"id": "leftmost-open-brace", "kind": "break", "edits": [(P, "if let Some(i) = pattern.rfind('{') {", "if let Some(i) = pattern.find('{') {")], "expect": ["D1-BRACE-PAIR"]},
 {"id": "suffix-keeps-close-brace", "kind": "break", "edits": [(P, "let (matches, last) = rest.split_at(n + 1);\n            let matches = &matches[1..matches.len() - 1];", "let (matches, last) = rest.split_at(n);\n            let matches = &matches[1..matches.len()];")], "expect": ["D2-EXPANSION"]},
 {"id": "alternative-order-in-format", "kind": "break", "edits": [(P, 'let fmt = format!("{}{}{}", first, m, last);', 'let fmt = format!("{}{}{}", m, first, last);')], "expect": ["D2-EXPANSION"]},
 {"id": "match-any-alternative-prefix", "kind": "break",
  "edits": [(P, "                    if pat.matches(pkg) {\n                        return true;\n                    }", "                    if pat.matches(pkg) || pkg.starts_with(fmt.as_str()) {\n                        return true;\n                    }")], "expect": ["D2-EXPANSION"]},
 {"id": "invalid-expansion-unwrapped", "kind": "break",
  "edits": [(P, "                if let Ok(pat) = Pattern::new(&fmt) {\n                    if pat.matches(pkg) {\n                        return true;\n                    }\n                }", "                if Pattern::new(&fmt).unwrap().matches(pkg) {\n                    return true;\n                }")], "expect": ["D"]},
 {"id": "balance-ignores-unclosed", "kind": "break", "edits": [(P, "            if !stack.is_empty() {\n                return Err(PatternError::Alternate);\n            }\n", "")], "expect": ["D4-BALANCE"]},
 {"id": "balance-close-without-open-ok", "kind": "break", "edits": [(P, "} else if ch == '}' && stack.pop().is_none() {\n                    return Err(PatternError::Alternate);\n                }", "} else if ch == '}' {\n                    stack.pop();\n                }")], "expect": ["D4-BALANCE"]},
 {"id": "fallthrough-true", "kind": "break", "edits": [(P, "                }\n            }\n        }\n        false\n    }\n\n    /**\n     * pkg_install contains a quick_pkg_match", "                }\n            }\n        }\n        pattern == pkg\n    }\n\n    /**\n     * pkg_install contains a quick_pkg_match")], "expect": ["D2-FALLTHROUGH"]},
 {"id": "benign-last-match-index", "kind": "benign", "edits": [(P, "if let Some(i) = pattern.rfind('{') {", "if let Some((i, _)) = pattern.match_indices('{').last() {")]},

 {"id": "probe-first-open-brace", "kind": "break", "edits": [(P, "if let Some(i) = pattern.rfind('{') {", "if let Some(i) = pattern.find('{') {")], "expect": ["D1-BRACE-PAIR"]},
 {"id": "probe-last-close-brace", "kind": "break", "edits": [(P, "let Some(n) = rest.find('}') else {", "let Some(n) = rest.rfind('}') else {")], "expect": ["D1-BRACE-PAIR"]},
 {"id": "probe-alternatives-split-on-semicolon", "kind": "break", "edits": [(P, "for m in matches.split(',') {", "for m in matches.split(';') {")], "expect": ["D"]},
 {"id": "probe-alternatives-splitn-two", "kind": "break", "edits": [(P, "for m in matches.split(',') {", "for m in matches.splitn(2, ',') {")], "expect": ["D"]},

 {"id": "probe-unbalanced-open-accepted", "kind": "break", "edits": [(P, "            if !stack.is_empty() {\n                return Err(PatternError::Alternate);\n            }", "            if stack.len() > 1 {\n                return Err(PatternError::Alternate);\n            }")], "expect": ["D4-BALANCE"]},
 {"id": "probe-close-before-open-accepted", "kind": "break", "edits": [(P, "} else if ch == '}' && stack.pop().is_none() {\n                    return Err(PatternError::Alternate);\n                }", "} else if ch == '}' {\n                    stack.pop();\n                }")], "expect": ["D4-BALANCE"]},
 {"id": "probe-alternate-only-when-open-brace", "kind": "break", "edits": [(P, "if pattern.contains('{') || pattern.contains('}') {", "if pattern.contains('{') {")], "expect": []},
 # counter / helper-predicate spellings of the brace balance scan (benign/m-pattern-1, benign/pattern-1) and their one-line breakages
 {"id": "counter-form-benign", "kind": "benign", "edits": [{"patch": "/verif/benign/m-pattern-1/patch.diff"}]},
 {"id": "helper-form-benign", "kind": "benign", "edits": [{"patch": "/verif/benign/pattern-1/patch.diff"}]},
 {"id": "counter-close-at-zero-ignored", "kind": "break", "edits": [{"patch": "/verif/benign/m-pattern-1/patch.diff"}, ("src/pattern.rs", "                    '}' if depth == 0 => return Err(PatternError::Alternate),\n                    '}' => depth -= 1,", "                    '}' if depth == 0 => {}\n                    '}' => depth -= 1,")], "expect": ["D4-BALANCE"]},
 {"id": "counter-open-not-counted", "kind": "break", "edits": [{"patch": "/verif/benign/m-pattern-1/patch.diff"}, ("src/pattern.rs", "                    '{' => depth += 1,", "                    '{' => depth = 1,")], "expect": ["D4-BALANCE"]},
 {"id": "counter-unclosed-accepted", "kind": "break", "edits": [{"patch": "/verif/benign/m-pattern-1/patch.diff"}, ("src/pattern.rs", "            if depth != 0 {\n                return Err(PatternError::Alternate);\n            }", "            if depth > 1 {\n                return Err(PatternError::Alternate);\n            }")], "expect": ["D4-BALANCE"]},
 {"id": "counter-starts-at-one", "kind": "break", "edits": [{"patch": "/verif/benign/m-pattern-1/patch.diff"}, ("src/pattern.rs", "let mut depth: usize = 0;", "let mut depth: usize = 1;")], "expect": ["D4-BALANCE"]},
 {"id": "counter-dispatch-misses-close-brace", "kind": "break", "edits": [{"patch": "/verif/benign/m-pattern-1/patch.diff"}, ("src/pattern.rs", "if pattern.contains(['{', '}']) {", "if pattern.contains(['{']) {")], "expect": ["D4-DISPATCH"]},
 {"id": "helper-verdict-inverted", "kind": "break", "edits": [{"patch": "/verif/benign/pattern-1/patch.diff"}, ("src/pattern.rs", "if !Self::braces_balanced(pattern) {", "if Self::braces_balanced(pattern) {")], "expect": ["D4-BALANCE"]},
 {"id": "helper-returns-true-at-end", "kind": "break", "edits": [{"patch": "/verif/benign/pattern-1/patch.diff"}, ("src/pattern.rs", "        depth == 0\n    }", "        let _ = depth;\n        true\n    }")], "expect": ["D4-BALANCE"]},
 {"id": "helper-close-does-not-decrement", "kind": "break", "edits": [{"patch": "/verif/benign/pattern-1/patch.diff"}, ("src/pattern.rs", "                depth -= 1;\n", "")], "expect": ["D4-BALANCE"]},
 {"id": "helper-on-other-text", "kind": "break", "edits": [{"patch": "/verif/benign/pattern-1/patch.diff"}, ("src/pattern.rs", "if !Self::braces_balanced(pattern) {", "if !Self::braces_balanced(&pattern[1..]) {")], "expect": ["D4-BALANCE"]},

]
