P = "src/pattern.rs"
MUTANTS = [
 {"id": "regress-loop-over-every-open-brace", "kind": "break",
  "edits": [(P, "        if let Some(i) = pattern.rfind('{') {\n            let (first, rest) = pattern.split_at(i);", "        for (i, _) in\n            pattern.match_indices('{').collect::<Vec<_>>().iter().rev()\n        {\n            let (first, rest) = pattern.split_at(*i);")],
  "expect": ["D1-BRACE-PAIR"]},
 {"id": "leftmost-open-brace", "kind": "break", "edits": [(P, "if let Some(i) = pattern.rfind('{') {", "if let Some(i) = pattern.find('{') {")], "expect": ["D1-BRACE-PAIR"]},
 {"id": "suffix-keeps-close-brace", "kind": "break", "edits": [(P, "let (matches, last) = rest.split_at(n + 1);\n            let matches = &matches[1..matches.len() - 1];", "let (matches, last) = rest.split_at(n);\n            let matches = &matches[1..matches.len()];")], "expect": ["D2-EXPANSION"]},
 {"id": "alternative-order-in-format", "kind": "break", "edits": [(P, 'let fmt = format!("{}{}{}", first, m, last);', 'let fmt = format!("{}{}{}", m, first, last);')], "expect": ["D2-EXPANSION"]},
 {"id": "match-any-alternative-prefix", "kind": "break",
  "edits": [(P, "                    if pat.matches(pkg) {\n                        return true;\n                    }", "                    if pat.matches(pkg) || pkg.starts_with(fmt.as_str()) {\n                        return true;\n                    }")], "expect": ["D2-EXPANSION"]},
 {"id": "invalid-expansion-unwrapped", "kind": "break",
  "edits": [(P, "                if let Ok(pat) = Pattern::new(&fmt) {\n                    if pat.matches(pkg) {\n                        return true;\n                    }\n                }", "                if Pattern::new(&fmt).unwrap().matches(pkg) {\n                    return true;\n                }")], "expect": ["D"]},
 {"id": "balance-ignores-unclosed", "kind": "break", "edits": [(P, "            if !stack.is_empty() {\n                return Err(PatternError::Alternate);\n            }\n", "")], "expect": ["D4-BALANCE"]},
 {"id": "balance-close-without-open-ok", "kind": "break", "edits": [(P, "} else if ch == '}' && stack.pop().is_none() {\n                    return Err(PatternError::Alternate);\n                }", "} else if ch == '}' {\n                    stack.pop();\n                }")], "expect": ["D4-BALANCE"]},
 {"id": "fallthrough-true", "kind": "break", "edits": [(P, "                }\n            }\n        }\n        false\n    }\n\n    /**\n     * pkg_install contains a quick_pkg_match", "                }\n            }\n        }\n        pattern == pkg\n    }\n\n    /**\n     * pkg_install contains a quick_pkg_match")], "expect": ["D2-FALLTHROUGH"]},
 {"id": "benign-last-match-index", "kind": "benign", "edits": [(P, "if let Some(i) = pattern.rfind('{') {", "if let Some((i, _)) = pattern.match_indices('{').last() {")]},

 {"id": "probe-first-open-brace", "kind": "break", "edits": [(P, "if let Some(i) = pattern.rfind('{') {", "if let Some(i) = pattern.find('{') {")], "expect": ["D1-BRACE-PAIR"]},
 {"id": "probe-last-close-brace", "kind": "break", "edits": [(P, "let Some(n) = rest.find('}') else {", "let Some(n) = rest.rfind('}') else {")], "expect": ["D1-BRACE-PAIR"]},
 {"id": "probe-alternatives-split-on-semicolon", "kind": "break", "edits": [(P, "for m in matches.split(',') {", "for m in matches.split(';') {")], "expect": ["D"]},
 {"id": "probe-alternatives-splitn-two", "kind": "break", "edits": [(P, "for m in matches.split(',') {", "for m in matches.splitn(2, ',') {")], "expect": ["D"]},

 {"id": "probe-unbalanced-open-accepted", "kind": "break", "edits": [(P, "            if !stack.is_empty() {\n                return Err(PatternError::Alternate);\n            }", "            if stack.len() > 1 {\n                return Err(PatternError::Alternate);\n            }")], "expect": ["D4-BALANCE"]},
 {"id": "probe-close-before-open-accepted", "kind": "break", "edits": [(P, "} else if ch == '}' && stack.pop().is_none() {\n                    return Err(PatternError::Alternate);\n                }", "} else if ch == '}' {\n                    stack.pop();\n                }")], "expect": ["D4-BALANCE"]},
 {"id": "probe-alternate-only-when-open-brace", "kind": "break", "edits": [(P, "if pattern.contains('{') || pattern.contains('}') {", "if pattern.contains('{') {")], "expect": []},
 # counter / helper-predicate spellings of the brace balance scan (benign/m-pattern-1, benign/pattern-1) and their one-line breakages
 {"id": "counter-form-benign", "kind": "benign", "edits": [{"patch": "/verif/benign/m-pattern-1/patch.diff"}]},
 {"id": "helper-form-benign", "kind": "benign", "edits": [{"patch": "/verif/benign/pattern-1/patch.diff"}]},
 {"id": "counter-close-at-zero-ignored", "kind": "break", "edits": [{"patch": "/verif/benign/m-pattern-1/patch.diff"}, ("src/pattern.rs", "                    '}' if depth == 0 => return Err(PatternError::Alternate),\n                    '}' => depth -= 1,", "                    '}' if depth == 0 => {}\n                    '}' => depth -= 1,")], "expect": ["D4-BALANCE"]},
 {"id": "counter-open-not-counted", "kind": "break", "edits": [{"patch": "/verif/benign/m-pattern-1/patch.diff"}, ("src/pattern.rs", "                    '{' => depth += 1,", "                    '{' => depth = 1,")], "expect": ["D4-BALANCE"]},
 {"id": "counter-unclosed-accepted", "kind": "break", "edits": [{"patch": "/verif/benign/m-pattern-1/patch.diff"}, ("src/pattern.rs", "            if depth != 0 {\n                return Err(PatternError::Alternate);\n            }", "            if depth > 1 {\n                return Err(PatternError::Alternate);\n            }")], "expect": ["D4-BALANCE"]},
 {"id": "counter-starts-at-one", "kind": "break", "edits": [{"patch": "/verif/benign/m-pattern-1/patch.diff"}, ("src/pattern.rs", "let mut depth: usize = 0;", "let mut depth: usize = 1;")], "expect": ["D4-BALANCE"]},
 {"id": "counter-dispatch-misses-close-brace", "kind": "break", "edits": [{"patch": "/verif/benign/m-pattern-1/patch.diff"}, ("src/pattern.rs", "if pattern.contains(['{', '}']) {", "if pattern.contains(['{']) {")], "expect": ["D4-DISPATCH"]},
 {"id": "helper-verdict-inverted", "kind": "break", "edits": [{"patch": "/verif/benign/pattern-1/patch.diff"}, ("src/pattern.rs", "if !Self::braces_balanced(pattern) {", "if Self::braces_balanced(pattern) {")], "expect": ["D4-BALANCE"]},
 {"id": "helper-returns-true-at-end", "kind": "break", "edits": [{"patch": "/verif/benign/pattern-1/patch.diff"}, ("src/pattern.rs", "        depth == 0\n    }", "        let _ = depth;\n        true\n    }")], "expect": ["D4-BALANCE"]},
 {"id": "helper-close-does-not-decrement", "kind": "break", "edits": [{"patch": "/verif/benign/pattern-1/patch.diff"}, ("src/pattern.rs", "                depth -= 1;\n", "")], "expect": ["D4-BALANCE"]},
 {"id": "helper-on-other-text", "kind": "break", "edits": [{"patch": "/verif/benign/pattern-1/patch.diff"}, ("src/pattern.rs", "if !Self::braces_balanced(pattern) {", "if !Self::braces_balanced(&pattern[1..]) {")], "expect": ["D4-BALANCE"]},

 # iterator / split_once spellings of alternate_match (benign/m-pattern-3, benign/pattern-3) and their one-line breakages
 {"id": "any-form-split-once-benign", "kind": "benign", "edits": [{"patch": "/verif/benign/m-pattern-3/patch.diff"}]},
 {"id": "any-form-slices-benign", "kind": "benign", "edits": [{"patch": "/verif/benign/pattern-3/patch.diff"}]},
 {"id": "any-form-first-open-brace", "kind": "break", "edits": [{"patch": "/verif/benign/m-pattern-3/patch.diff"}, ("src/pattern.rs", "let Some(i) = pattern.rfind('{') else {", "let Some(i) = pattern.find('{') else {")], "expect": ["D1-BRACE-PAIR"]},
 {"id": "any-form-last-close-brace", "kind": "break", "edits": [{"patch": "/verif/benign/m-pattern-3/patch.diff"}, ("src/pattern.rs", "pattern[i + 1..].split_once('}')", "pattern[i + 1..].rsplit_once('}')")], "expect": ["D1-BRACE-PAIR"]},
 {"id": "any-form-close-searched-from-start", "kind": "break", "edits": [{"patch": "/verif/benign/m-pattern-3/patch.diff"}, ("src/pattern.rs", "pattern[i + 1..].split_once('}')", "pattern.split_once('}')")], "expect": ["D1-BRACE-PAIR"]},
 {"id": "any-form-all-instead-of-any", "kind": "break", "edits": [{"patch": "/verif/benign/m-pattern-3/patch.diff"}, ("src/pattern.rs", "        matches.split(',').any(|m| {", "        matches.split(',').all(|m| {")], "expect": ["D2-", "D1-"]},
 {"id": "any-form-err-counts-as-match", "kind": "break", "edits": [{"patch": "/verif/benign/pattern-3/patch.diff"}, ("src/pattern.rs", "                Err(_) => false,", "                Err(_) => true,")], "expect": ["D"]},
 {"id": "any-form-matches-other-name", "kind": "break", "edits": [{"patch": "/verif/benign/pattern-3/patch.diff"}, ("src/pattern.rs", "                Ok(pat) => pat.matches(pkg),", "                Ok(pat) => pat.matches(first),")], "expect": ["D2-EXPANSION"]},
 {"id": "any-form-alternative-trimmed", "kind": "break", "edits": [{"patch": "/verif/benign/pattern-3/patch.diff"}, ("src/pattern.rs", 'format!("{}{}{}", first, alt, last)', 'format!("{}{}{}", first, alt.trim(), last)')], "expect": ["D2-EXPANSION"]},
 {"id": "any-form-suffix-keeps-brace", "kind": "break", "edits": [{"patch": "/verif/benign/pattern-3/patch.diff"}, ("src/pattern.rs", "let last = &rest[close + 1..];", "let last = &rest[close..];")], "expect": ["D2-EXPANSION"]},
 {"id": "any-form-split-on-semicolon", "kind": "break", "edits": [{"patch": "/verif/benign/pattern-3/patch.diff"}, ("src/pattern.rs", "alternatives.split(',').any(", "alternatives.split(';').any(")], "expect": ["D2-EXPANSION"]},
 {"id": "any-form-skips-first-alternative", "kind": "break", "edits": [{"patch": "/verif/benign/pattern-3/patch.diff"}, ("src/pattern.rs", "alternatives.split(',').any(", "alternatives.split(',').skip(1).any(")], "expect": ["D"]},

 # the brace group as a small struct with hand-computed absolute positions (benign/h3-pattern-3) and its one-line breakages
 {"id": "group-struct-benign", "kind": "benign", "edits": [{"patch": "/verif/benign/h3-pattern-3/patch.diff"}]},
 {"id": "group-struct-close-from-start", "kind": "break", "edits": [{"patch": "/verif/benign/h3-pattern-3/patch.diff"}, ("src/pattern.rs", "let close = open + pattern[open..].find('}')?;", "let close = pattern.find('}')?;")], "expect": ["D"]},
 {"id": "group-struct-choices-keep-brace", "kind": "break", "edits": [{"patch": "/verif/benign/h3-pattern-3/patch.diff"}, ("src/pattern.rs", "choices: &pattern[open + 1..close],", "choices: &pattern[open..close],")], "expect": ["D2-EXPANSION"]},
 {"id": "group-struct-suffix-keeps-brace", "kind": "break", "edits": [{"patch": "/verif/benign/h3-pattern-3/patch.diff"}, ("src/pattern.rs", "suffix: &pattern[close + 1..],", "suffix: &pattern[close..],")], "expect": ["D2-EXPANSION"]},

]
