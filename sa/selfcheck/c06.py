P = "src/pattern.rs"
MUTANTS = [
 {"id": "tie-returns-larger-name", "kind": "break", "edits": [(P, "} else if pkg1 < pkg2 {", "} else if pkg1 > pkg2 {")], "expect": ["D-"]},
 {"id": "lower-version-wins", "kind": "break", "edits": [(P, "if dewey_cmp(&d1, &DeweyOp::GT, &d2) {", "if dewey_cmp(&d1, &DeweyOp::LT, &d2) {"), (P, "} else if dewey_cmp(&d1, &DeweyOp::LT, &d2) {", "} else if dewey_cmp(&d1, &DeweyOp::GT, &d2) {")], "expect": ["D-SELECTION"]},
 {"id": "ge-instead-of-gt", "kind": "break", "edits": [(P, "if dewey_cmp(&d1, &DeweyOp::GT, &d2) {", "if dewey_cmp(&d1, &DeweyOp::GE, &d2) {")], "expect": ["D-PREDICATES"]},
 {"id": "single-match-returns-other", "kind": "break", "edits": [(P, "(true, false) => Some(pkg1),", "(true, false) => Some(pkg2),")], "expect": ["D-SELECTION"]},
 {"id": "version-from-whole-name", "kind": "break", "edits": [(P, "let d2 = DeweyVersion::new(PkgName::new(pkg2).pkgversion());", "let d2 = DeweyVersion::new(pkg2);")], "expect": ["D-PREDICATES"]},
 {"id": "both-versions-from-pkg1", "kind": "break", "edits": [(P, "let d2 = DeweyVersion::new(PkgName::new(pkg2).pkgversion());", "let d2 = DeweyVersion::new(PkgName::new(pkg1).pkgversion());")], "expect": ["D-PREDICATES"]},
 {"id": "tie-break-case-insensitive", "kind": "break", "edits": [(P, "} else if pkg1 < pkg2 {", "} else if pkg1.to_lowercase() < pkg2.to_lowercase() {")], "expect": ["D-PREDICATES"]},
 {"id": "second-candidate-not-matched", "kind": "break", "edits": [(P, "match (self.matches(pkg1), self.matches(pkg2)) {", "match (self.matches(pkg1), self.matches(pkg1) || self.matches(pkg2)) {")], "expect": ["D-"]},
 {"id": "benign-mirrored-comparison", "kind": "benign", "edits": [(P, "} else if dewey_cmp(&d1, &DeweyOp::LT, &d2) {", "} else if dewey_cmp(&d2, &DeweyOp::GT, &d1) {")]},

 {"id": "probe-tie-returns-larger-name", "kind": "break", "edits": [(P, "} else if pkg1 < pkg2 {\n                    Some(pkg1)", "} else if pkg1 > pkg2 {\n                    Some(pkg1)")], "expect": ["D-SELECTION"]},
 {"id": "probe-both-match-none-on-tie", "kind": "break", "edits": [(P, "} else if pkg1 < pkg2 {\n                    Some(pkg1)\n                } else {\n                    Some(pkg2)\n                }", "} else if pkg1 < pkg2 {\n                    Some(pkg1)\n                } else if pkg1 == pkg2 {\n                    None\n                } else {\n                    Some(pkg2)\n                }")], "expect": ["D-"]},
 {"id": "probe-version-from-whole-name", "kind": "break", "edits": [(P, "let d1 = DeweyVersion::new(PkgName::new(pkg1).pkgversion());", "let d1 = DeweyVersion::new(PkgName::new(pkg1).pkgname());")], "expect": ["D-"]},
]
