L = "src/plist.rs"
FIX_GUARD = (L, "if start < idx && tstart + 1 < idx {", "if start < idx && tstart < idx {")
FIX_WS1 = (L, "} else if trim && (*ch as char).is_whitespace() {", "} else if trim && ch.is_ascii_whitespace() {")
FIX_WS2 = (L, "if (*c as char).is_whitespace() {", "if c.is_ascii_whitespace() {")
MUTANTS = [
 # the defects repaired in /repo (fix: commits), re-introduced: the rules must fire again
 {"id": "regress-line-guard", "kind": "break", "edits": [(FIX_GUARD[0], FIX_GUARD[2], FIX_GUARD[1])], "expect": ["D3-LINE-GUARD", "in-loop:tstart"]},
 {"id": "regress-bytews-scanner", "kind": "break", "edits": [(FIX_WS1[0], FIX_WS1[2], FIX_WS1[1])], "expect": ["D4-BYTEWS@plist::Plist::from_bytes"]},
 {"id": "regress-bytews-args", "kind": "break", "edits": [(FIX_WS2[0], FIX_WS2[2], FIX_WS2[1])], "expect": ["D4-BYTEWS@plist::PlistEntry::from_bytes"]},
 {"id": "pkgdep-lossy", "kind": "break",
  "edits": [(L, '"@pkgdep" => plist_args_str!(args, PlistEntry::PkgDep, line),', '"@pkgdep" => match args {\n                    Some(s) => Ok(PlistEntry::PkgDep(s.to_string_lossy().into_owned())),\n                    None => Err(PlistError::IncorrectArguments(OsString::from(line))),\n                },')],
  "expect": ["D1-CMD-TABLE", "@pkgdep/args=Some"]},
 {"id": "dirrm-becomes-pkgdir", "kind": "break",
  "edits": [(L, '"@dirrm" => plist_args_osstr!(args, PlistEntry::DirRm, line),', '"@dirrm" => plist_args_osstr!(args, PlistEntry::PkgDir, line),')],
  "expect": ["D1-CMD-TABLE", "@dirrm"]},
 {"id": "ignore-accepts-args", "kind": "break",
  "edits": [(L, '"@ignore" => match args {\n                    Some(_) => Err(PlistError::IncorrectArguments(\n                        OsString::from(line),\n                    )),', '"@ignore" => match args {\n                    Some(_) => Ok(PlistEntry::Ignore),')],
  "expect": ["D1-CMD-TABLE", "@ignore/args=Some"]},
 {"id": "name-optional", "kind": "break",
  "edits": [(L, '"@name" => plist_args_str!(args, PlistEntry::Name, line),', '"@name" => match args {\n                    Some(s) => Ok(PlistEntry::Name(String::from_utf8(s.as_bytes().to_vec())?)),\n                    None => Ok(PlistEntry::Name(String::new())),\n                },')],
  "expect": ["D1-CMD-TABLE", "@name/args=None"]},
 {"id": "unknown-command-is-file", "kind": "break",
  "edits": [(L, "                _ => Err(PlistError::UnsupportedCommand(OsString::from(cmd))),\n            }\n        } else {", "                _ => Ok(PlistEntry::File(OsString::from(OsStr::from_bytes(bytes)))),\n            }\n        } else {")],
  "expect": ["D1-UNKNOWN"]},
 {"id": "cd-alias-removed", "kind": "break",
  "edits": [(L, '"@cwd" | "@src" | "@cd" => {', '"@cwd" | "@src" => {')],
  "expect": ["D1-CMD-TABLE", "@cd"]},
 {"id": "file-entry-lossy", "kind": "break",
  "edits": [(L, "Ok(PlistEntry::File(OsString::from(OsStr::from_bytes(bytes))))", "Ok(PlistEntry::File(OsString::from(String::from_utf8_lossy(bytes).into_owned())))")],
  "expect": ["D1-FILE"]},
 {"id": "option-any-value-preserve", "kind": "break",
  "edits": [(L, "                    Some(_) => {\n                        Err(PlistError::UnsupportedCommand(OsString::from(cmd)))\n                    }", "                    Some(_) => Ok(PlistEntry::PkgOpt(PlistOption::Preserve)),")],
  "expect": ["D1-CMD-TABLE", "@option"]},
 {"id": "entries-skip-bad-lines", "kind": "break",
  "edits": [(L, "            plist\n                .entries\n                .push(PlistEntry::from_bytes(&bytes[start..end])?);", "            if let Ok(e) = PlistEntry::from_bytes(&bytes[start..end]) {\n                plist.entries.push(e);\n            }")],
  "expect": ["D2-"]},
 {"id": "guard-allows-empty", "kind": "break",
  "edits": [(L, "if end < bytes.len() && tstart < bytes.len() {", "if end < bytes.len() && tstart <= bytes.len() {")],
  "expect": ["D3-LINE-GUARD", "end-of-input"]},
 {"id": "entry-slice-off-by-one", "kind": "break",
  "edits": [(L, ".push(PlistEntry::from_bytes(&bytes[start..end])?);", ".push(PlistEntry::from_bytes(&bytes[start..start])?);")],
  "expect": ["D2-PRODUCER"]},
 {"id": "benign-command-order", "kind": "benign",
  "edits": [(L, '                "@exec" => plist_args_osstr!(args, PlistEntry::Exec, line),\n                "@unexec" => plist_args_osstr!(args, PlistEntry::UnExec, line),', '                "@unexec" => plist_args_osstr!(args, PlistEntry::UnExec, line),\n                "@exec" => plist_args_osstr!(args, PlistEntry::Exec, line),')]},
 {"id": "benign-rename-scanner-variables", "kind": "benign", "edits": [(L, "re:\\btstart\\b", "first_nonblank", 5)]},
 {"id": "entries-deduplicated", "kind": "break", "edits": [(L, "        Ok(plist)\n    }\n\n    /**\n     * Return the package name as specified", "        plist.entries.dedup();\n        Ok(plist)\n    }\n\n    /**\n     * Return the package name as specified")], "expect": ["D2-PRODUCER", "only-appended:plist.entries"]},
 # D3-TRANSFER: each compiles, keeps the guards (k = 0) intact, and the pinned tests pass
 {"id": "transfer-start-not-reset-past-newline", "kind": "break", "edits": [(L, "                start = idx + 1;\n                end = start;", "                start = idx;\n                end = start;")],
  "expect": ["D3-TRANSFER"]},
 {"id": "transfer-cursor-not-reset", "kind": "break", "edits": [(L, "                tstart = start;\n                trim = true;", "                trim = true;")],
  "expect": ["D3-TRANSFER", "newline=True"]},
 {"id": "transfer-flag-not-reset", "kind": "break", "edits": [(L, "                tstart = start;\n                trim = true;", "                tstart = start;")],
  "expect": ["D3-TRANSFER", "newline=True"]},
 {"id": "transfer-cursor-skips-two", "kind": "break", "edits": [(L, "                tstart += 1;", "                tstart += 2;")],
  "expect": ["D3-TRANSFER", "blank=True"]},
 {"id": "transfer-flag-never-cleared", "kind": "break", "edits": [(L, "                trim = false;", "                trim = trim;")],
  "expect": ["D3-TRANSFER"]},
 {"id": "transfer-tab-ends-line", "kind": "break", "edits": [(L, "            if *ch == b'\\n' {", "            if *ch == b'\\n' || *ch == b'\\x0c' {")],
  "expect": ["D3-TRANSFER"]},
 {"id": "benign-cursor-set-from-index", "kind": "benign", "edits": [(L, "                tstart += 1;", "                tstart = idx + 1;")]},
 {"id": "benign-match-on-byte", "kind": "benign", "edits": [(L, "            if *ch == b'\\n' {", "            if b'\\n' == *ch {")]},
 {"id": "benign-scan-loop-as-match", "kind": "benign", "edits": [
    (L, "            if *ch == b'\\n' {", "            match *ch { b'\\n' => {"),
    (L, "            } else if trim && ch.is_ascii_whitespace() {", "            } _ if trim && ch.is_ascii_whitespace() => {"),
    (L, "re:            \\} else \\{\\n(\\s*/\\*[^/]*\\*/\\n)?\\s*trim = false;\\n            \\}", "            } _ => { trim = false; } }")]},
 # the producer written as map + collect (benign/plist-2), with one thing broken
 {"id": "collect-producer-wrong-slice", "kind": "break",
  "edits": [{"patch": "/verif/benign/plist-2/patch.diff"}, (L, "PlistEntry::from_bytes(&bytes[start..end]))", "PlistEntry::from_bytes(&bytes[start..start]))")],
  "expect": ["D2-PRODUCER"]},
 {"id": "collect-producer-reversed", "kind": "break",
  "edits": [{"patch": "/verif/benign/plist-2/patch.diff"}, (L, "            .into_iter()\n            .map(|(start, end)|", "            .into_iter()\n            .rev()\n            .map(|(start, end)|")],
  "expect": ["D2-PRODUCER"]},
 {"id": "collect-producer-drops-bad-lines", "kind": "break",
  "edits": [{"patch": "/verif/benign/plist-2/patch.diff"}, (L, "            .map(|(start, end)| PlistEntry::from_bytes(&bytes[start..end]))\n            .collect::<Result<Vec<PlistEntry>>>()?;", "            .filter_map(|(start, end)| PlistEntry::from_bytes(&bytes[start..end]).ok())\n            .collect::<Vec<PlistEntry>>();")],
  "expect": ["D2-"]},

 {"id": "probe-argument-trailing-blanks-trimmed", "kind": "break", "edits": [(L, "                Some(OsStr::from_bytes(&bytes[idx..end]))", "                Some(OsStr::from_bytes(bytes[idx..end].trim_ascii_end()))")], "expect": ["D1-"]},
 {"id": "probe-empty-argument-is-some", "kind": "break", "edits": [(L, "            if idx == end {\n                None\n            } else {", "            if idx > end {\n                None\n            } else {")], "expect": ["D1-"]},
 {"id": "probe-command-word-lowercased", "kind": "break", "edits": [(L, "            match cmd.as_str() {\n                /*\n                 * @src and @cd", "            match cmd.to_ascii_lowercase().as_str() {\n                /*\n                 * @src and @cd")], "expect": ["D1-"]},
 # position-based spellings of the command/argument split (benign/m-plist-1, benign/plist-1) and their one-line breakages
 {"id": "position-form-benign", "kind": "benign", "edits": [{"patch": "/verif/benign/m-plist-1/patch.diff"}]},
 {"id": "split-command-form-benign", "kind": "benign", "edits": [{"patch": "/verif/benign/plist-1/patch.diff"}]},
 {"id": "position-form-args-from-line-start", "kind": "break", "edits": [{"patch": "/verif/benign/m-plist-1/patch.diff"}, ("src/plist.rs", "Some(idx) if idx > 0 => Self::split_args(&bytes[idx..]),", "Some(idx) if idx > 0 => Self::split_args(bytes),")], "expect": ["D1-"]},
 {"id": "position-form-blank-only-is-empty-arg", "kind": "break", "edits": [{"patch": "/verif/benign/m-plist-1/patch.diff"}, ("src/plist.rs", "            .position(|c| !c.is_ascii_whitespace())\n            .map(|skip| OsStr::from_bytes(&rest[skip..]))", "            .position(|c| !c.is_ascii_whitespace())\n            .or(Some(rest.len()))\n            .map(|skip| OsStr::from_bytes(&rest[skip..]))")], "expect": ["D1-ARG-EMPTY"]},
 {"id": "position-form-skips-only-spaces", "kind": "break", "edits": [{"patch": "/verif/benign/m-plist-1/patch.diff"}, ("src/plist.rs", "            .position(|c| !c.is_ascii_whitespace())\n            .map(|skip| OsStr::from_bytes(&rest[skip..]))", "            .position(|c| *c != b' ')\n            .map(|skip| OsStr::from_bytes(&rest[skip..]))")], "expect": ["D4-BLANKSET"]},
 {"id": "position-form-arg-trimmed-at-end", "kind": "break", "edits": [{"patch": "/verif/benign/m-plist-1/patch.diff"}, ("src/plist.rs", ".map(|skip| OsStr::from_bytes(&rest[skip..]))", ".map(|skip| OsStr::from_bytes(rest[skip..].trim_ascii_end()))")], "expect": ["D1-ARG-TAIL"]},
 {"id": "position-form-leading-space-line-gets-args", "kind": "benign", "edits": [{"patch": "/verif/benign/m-plist-1/patch.diff"}, ("src/plist.rs", "Some(idx) if idx > 0 => Self::split_args(&bytes[idx..]),", "Some(idx) => Self::split_args(&bytes[idx..]),")]},   # a line starting with a space has an empty command word: a file entry, its argument is never used
 {"id": "split-command-form-cmd-includes-space", "kind": "break", "edits": [{"patch": "/verif/benign/plist-1/patch.diff"}, ("src/plist.rs", "let cmd = String::from_utf8_lossy(&bytes[..sep]).into_owned();", "let cmd = String::from_utf8_lossy(&bytes[..=sep]).into_owned();")], "expect": ["D1-"]},
 {"id": "split-command-form-rest-skips-a-byte", "kind": "break", "edits": [{"patch": "/verif/benign/plist-1/patch.diff"}, ("src/plist.rs", "        let rest = &bytes[sep..];", "        let rest = &bytes[sep + 2..];")], "expect": ["D1-SPLIT"]},

 {"id": "probe-cmd-word-includes-the-space", "kind": "break", "edits": [("src/plist.rs", "Some(i) => (i, String::from_utf8_lossy(&bytes[0..i]).into_owned()),", "Some(i) => (i, String::from_utf8_lossy(&bytes[0..i + 1]).into_owned()),")], "expect": ["D1-"]},
 {"id": "probe-arg-scan-starts-at-line-start", "kind": "break", "edits": [("src/plist.rs", "            for c in &bytes[idx..end] {\n                if c.is_ascii_whitespace() {", "            idx = 1;\n            for c in &bytes[idx..end] {\n                if c.is_ascii_whitespace() {")], "expect": ["D1-"]},
 {"id": "probe-cmd-word-split-at-last-space", "kind": "break", "edits": [("src/plist.rs", "bytes.iter().position(|&c| c == b' ')", "bytes.iter().rposition(|&c| c == b' ')")], "expect": ["D1-"]},

 # single-pass spelling of Plist::from_bytes (benign/m-plist-2) and its one-line breakages
 {"id": "single-pass-benign", "kind": "benign", "edits": [{"patch": "/verif/benign/m-plist-2/patch.diff"}]},
 {"id": "single-pass-blank-line-recorded", "kind": "break", "edits": [{"patch": "/verif/benign/m-plist-2/patch.diff"}, ("src/plist.rs", "if start < idx && tstart < idx {\n                    let entry", "if start < idx && tstart <= idx {\n                    let entry")], "expect": ["D3-LINE-GUARD"]},
 {"id": "single-pass-tail-without-content", "kind": "break", "edits": [{"patch": "/verif/benign/m-plist-2/patch.diff"}, ("src/plist.rs", "if start < bytes.len() && tstart < bytes.len() {\n            let entry", "if start < bytes.len() {\n            let entry")], "expect": ["D3-"]},
 {"id": "single-pass-entry-from-cursor", "kind": "break", "edits": [{"patch": "/verif/benign/m-plist-2/patch.diff"}, ("src/plist.rs", "let entry = PlistEntry::from_bytes(&bytes[start..idx])?;", "let entry = PlistEntry::from_bytes(&bytes[tstart..idx])?;")], "expect": ["D3-TRANSFER"]},
 {"id": "single-pass-bad-line-skipped", "kind": "break", "edits": [{"patch": "/verif/benign/m-plist-2/patch.diff"}, ("src/plist.rs", "let entry = PlistEntry::from_bytes(&bytes[start..idx])?;\n                    plist.entries.push(entry);", "if let Ok(entry) = PlistEntry::from_bytes(&bytes[start..idx]) {\n                        plist.entries.push(entry);\n                    }")], "expect": ["D"]},
 {"id": "single-pass-entries-reversed", "kind": "break", "edits": [{"patch": "/verif/benign/m-plist-2/patch.diff"}, ("src/plist.rs", "                    plist.entries.push(entry);\n                }\n                /*\n                 * Reset", "                    plist.entries.insert(0, entry);\n                }\n                /*\n                 * Reset")], "expect": ["D2-PRODUCER"]},

 # index-driven cursor (benign/h3-plist-1) and its one-line breakages
 {"id": "index-cursor-benign", "kind": "benign", "edits": [{"patch": "/verif/benign/h3-plist-1/patch.diff"}]},
 {"id": "index-cursor-skips-nonblank", "kind": "break", "edits": [{"patch": "/verif/benign/h3-plist-1/patch.diff"}, ("src/plist.rs", "while idx < end && bytes[idx].is_ascii_whitespace() {", "while idx < end && (bytes[idx].is_ascii_whitespace() || bytes[idx] == b'#') {")], "expect": ["D"]},
 {"id": "index-cursor-empty-arg-kept", "kind": "break", "edits": [{"patch": "/verif/benign/h3-plist-1/patch.diff"}, ("src/plist.rs", "                .filter(|rest| !rest.is_empty())\n", "")], "expect": ["D1-ARG-EMPTY"]},
 {"id": "index-cursor-step-two", "kind": "break", "edits": [{"patch": "/verif/benign/h3-plist-1/patch.diff"}, ("src/plist.rs", "while idx < end && bytes[idx].is_ascii_whitespace() {\n                idx += 1;", "while idx < end && bytes[idx].is_ascii_whitespace() {\n                idx += 2;")], "expect": ["D1-SPLIT"]},

 # flag form of the line scanner (benign/h3-plist-2) and its one-line breakages
 {"id": "flag-scanner-benign", "kind": "benign", "edits": [{"patch": "/verif/benign/h3-plist-2/patch.diff"}]},
 {"id": "flag-scanner-records-blank-lines", "kind": "break", "edits": [{"patch": "/verif/benign/h3-plist-2/patch.diff"}, ("src/plist.rs", "                if !blank {\n                    lines.push((start, idx));", "                if blank {\n                    lines.push((start, idx));")], "expect": ["D3-"]},
 {"id": "flag-scanner-flag-not-reset", "kind": "break", "edits": [{"patch": "/verif/benign/h3-plist-2/patch.diff"}, ("src/plist.rs", "                start = idx + 1;\n                blank = true;", "                start = idx + 1;")], "expect": ["D3-TRANSFER"]},
 {"id": "flag-scanner-any-byte-clears", "kind": "break", "edits": [{"patch": "/verif/benign/h3-plist-2/patch.diff"}, ("src/plist.rs", "} else if !ch.is_ascii_whitespace() {", "} else {")], "expect": ["D3-TRANSFER"]},
 {"id": "flag-scanner-tail-unguarded", "kind": "break", "edits": [{"patch": "/verif/benign/h3-plist-2/patch.diff"}, ("src/plist.rs", "        if !blank {\n            lines.push((start, bytes.len()));", "        if start < bytes.len() {\n            lines.push((start, bytes.len()));")], "expect": ["D3-"]},
 {"id": "flag-scanner-start-not-advanced", "kind": "break", "edits": [{"patch": "/verif/benign/h3-plist-2/patch.diff"}, ("src/plist.rs", "                start = idx + 1;\n                blank = true;", "                start = idx;\n                blank = true;")], "expect": ["D3-TRANSFER"]},


 # the scan in a helper that returns the recorded (start, end) pairs; from_bytes maps them to entries
 {"id": "scan-helper-benign", "kind": "benign", "edits": [{"patch": "/verif/benign/h4-plist-2/patch.diff"}]},
 {"id": "scan-helper-blank-line-recorded", "kind": "break", "edits": [{"patch": "/verif/benign/h4-plist-2/patch.diff"}, (L, "if start < idx && tstart < idx {\n                    lines.push((start, idx));", "if start < idx && tstart <= idx {\n                    lines.push((start, idx));")], "expect": ["D3-LINE-GUARD"]},
 {"id": "scan-helper-drops-last", "kind": "break", "edits": [{"patch": "/verif/benign/h4-plist-2/patch.diff"}, (L, "            lines.push((start, bytes.len()));\n        }\n        lines\n", "            lines.push((start, bytes.len()));\n        }\n        lines.pop();\n        lines\n")], "expect": ["D2-PRODUCER"]},
 {"id": "scan-helper-returns-other-vector", "kind": "break", "edits": [{"patch": "/verif/benign/h4-plist-2/patch.diff"}, (L, "            lines.push((start, bytes.len()));\n        }\n        lines\n", "            lines.push((start, bytes.len()));\n        }\n        lines.iter().skip(1).copied().collect()\n")], "expect": ["D2-PRODUCER"]},
 {"id": "scan-helper-result-skipped", "kind": "break", "edits": [{"patch": "/verif/benign/h4-plist-2/patch.diff"}, (L, "        let entries = Plist::line_spans(bytes)\n            .into_iter()\n", "        let entries = Plist::line_spans(bytes)\n            .into_iter()\n            .skip(1)\n")], "expect": ["D2-PRODUCER"]},
 {"id": "scan-helper-given-other-bytes", "kind": "break", "edits": [{"patch": "/verif/benign/h4-plist-2/patch.diff"}, (L, "        let entries = Plist::line_spans(bytes)\n", "        let entries = Plist::line_spans(&bytes[1..])\n")], "expect": ["D"]},
 {"id": "scan-helper-cursor-not-reset", "kind": "break", "edits": [{"patch": "/verif/benign/h4-plist-2/patch.diff"}, (L, "                start = idx + 1;\n                tstart = start;\n                trim = true;", "                start = idx + 1;\n                trim = true;")], "expect": ["D3-TRANSFER"]},

 # the argument cut at a hand-computed absolute position: bytes[idx + skip..] with skip found by position() in bytes[idx..]
 {"id": "rebased-position-benign", "kind": "benign", "edits": [{"patch": "/verif/benign/h5-plist-1/patch.diff"}]},
 {"id": "rebased-position-one-past", "kind": "break", "edits": [{"patch": "/verif/benign/h5-plist-1/patch.diff"}, ("src/plist.rs", ".map(|skip| OsStr::from_bytes(&bytes[idx + skip..]))", ".map(|skip| OsStr::from_bytes(&bytes[idx + skip + 1..]))")], "expect": ["D1-"]},
 {"id": "rebased-position-searched-elsewhere", "kind": "break", "edits": [{"patch": "/verif/benign/h5-plist-1/patch.diff"}, ("src/plist.rs", "            bytes[idx..]\n                .iter()\n                .position(|c| !c.is_ascii_whitespace())", "            bytes[idx + 1..]\n                .iter()\n                .position(|c| !c.is_ascii_whitespace())")], "expect": ["D1-"]},
 {"id": "rebased-position-not-added", "kind": "break", "edits": [{"patch": "/verif/benign/h5-plist-1/patch.diff"}, ("src/plist.rs", ".map(|skip| OsStr::from_bytes(&bytes[idx + skip..]))", ".map(|skip| OsStr::from_bytes(&bytes[skip..]))")], "expect": ["D1-"]},
 {"id": "rebased-position-first-blank", "kind": "break", "edits": [{"patch": "/verif/benign/h5-plist-1/patch.diff"}, ("src/plist.rs", "                .position(|c| !c.is_ascii_whitespace())\n                .map(|skip| OsStr::from_bytes(&bytes[idx + skip..]))", "                .position(|c| c.is_ascii_whitespace())\n                .map(|skip| OsStr::from_bytes(&bytes[idx + skip..]))")], "expect": ["D1-"]},

 # argument splitting in a helper split_args(bytes, idx) that answers None for idx == 0
 {"id": "split-args-helper-benign", "kind": "benign", "edits": [{"patch": "/verif/benign/h6-plist-1/patch.diff"}]},
 {"id": "split-args-helper-no-zero-test", "kind": "break", "edits": [{"patch": "/verif/benign/h6-plist-1/patch.diff"}, ("src/plist.rs", "        if idx == 0 {\n            return None;\n        }\n        let rest = &bytes[idx..];", "        let rest = &bytes[idx..];")], "expect": ["D1-"]},
 {"id": "split-args-helper-from-line-start", "kind": "break", "edits": [{"patch": "/verif/benign/h6-plist-1/patch.diff"}, ("src/plist.rs", "        let rest = &bytes[idx..];", "        let rest = &bytes[idx / 2..];")], "expect": ["D1-"]},
 {"id": "split-args-helper-skips-to-last-blank", "kind": "break", "edits": [{"patch": "/verif/benign/h6-plist-1/patch.diff"}, ("src/plist.rs", "            .position(|c| !c.is_ascii_whitespace())\n            .map(|n| OsStr::from_bytes(&rest[n..]))", "            .rposition(|c| c.is_ascii_whitespace())\n            .map(|n| OsStr::from_bytes(&rest[n + 1..]))")], "expect": ["D1-"]},

 # Plist::from_bytes as a loop over bytes.split(b'\n') skipping all-blank lines
 {"id": "split-lines-benign", "kind": "benign", "edits": [{"patch": "/verif/benign/h7-plist-2/patch.diff"}]},
 {"id": "split-lines-skips-any-blank", "kind": "break", "edits": [{"patch": "/verif/benign/h7-plist-2/patch.diff"}, ("src/plist.rs", "            if line.iter().all(|ch| ch.is_ascii_whitespace()) {", "            if line.iter().any(|ch| ch.is_ascii_whitespace()) {")], "expect": ["D3-LINE-GUARD"]},
 {"id": "split-lines-only-empty-skipped", "kind": "break", "edits": [{"patch": "/verif/benign/h7-plist-2/patch.diff"}, ("src/plist.rs", "            if line.iter().all(|ch| ch.is_ascii_whitespace()) {", "            if line.is_empty() {")], "expect": ["D3-LINE-GUARD"]},
 {"id": "split-lines-trimmed-line-parsed", "kind": "break", "edits": [{"patch": "/verif/benign/h7-plist-2/patch.diff"}, ("src/plist.rs", "            plist.entries.push(PlistEntry::from_bytes(line)?);", "            plist.entries.push(PlistEntry::from_bytes(line.trim_ascii())?);")], "expect": ["D2-PRODUCER"]},
 {"id": "split-lines-also-at-cr", "kind": "break", "edits": [{"patch": "/verif/benign/h7-plist-2/patch.diff"}, ("src/plist.rs", "        for line in bytes.split(|&ch| ch == b'\\n') {", "        for line in bytes.split(|&ch| ch == b'\\n' || ch == b'\\r') {")], "expect": ["D3-TRANSFER"]},
 {"id": "split-lines-bad-line-skipped", "kind": "break", "edits": [{"patch": "/verif/benign/h7-plist-2/patch.diff"}, ("src/plist.rs", "            plist.entries.push(PlistEntry::from_bytes(line)?);", "            if let Ok(e) = PlistEntry::from_bytes(line) {\n                plist.entries.push(e);\n            }")], "expect": ["D"]},
 {"id": "split-lines-reversed", "kind": "break", "edits": [{"patch": "/verif/benign/h7-plist-2/patch.diff"}, ("src/plist.rs", "        for line in bytes.split(|&ch| ch == b'\\n') {", "        for line in bytes.rsplit(|&ch| ch == b'\\n') {")], "expect": ["D"]},

 # the line cut with split_at(first space); the argument as rest[first non-blank of rest ..]
 {"id": "split-at-first-space-benign", "kind": "benign", "edits": [{"patch": "/verif/benign/h8-plist-2/patch.diff"}]},
 {"id": "split-at-after-the-space", "kind": "break", "edits": [{"patch": "/verif/benign/h8-plist-2/patch.diff"}, ("src/plist.rs", "            Some(i) => bytes.split_at(i),", "            Some(i) => bytes.split_at(i + 1),")], "expect": ["D1-SPLIT"]},
 {"id": "split-at-no-space-word-empty", "kind": "break", "edits": [{"patch": "/verif/benign/h8-plist-2/patch.diff"}, ("src/plist.rs", "            None => (bytes, &bytes[bytes.len()..]),", "            None => (&bytes[bytes.len()..], bytes),")], "expect": ["D1-SPLIT"]},
 {"id": "split-at-argument-at-first-blank", "kind": "break", "edits": [{"patch": "/verif/benign/h8-plist-2/patch.diff"}, ("src/plist.rs", "            .position(|c| !c.is_ascii_whitespace())", "            .position(|c| c.is_ascii_whitespace())")], "expect": ["D1-SPLIT"]},
 {"id": "split-at-argument-loses-first-byte", "kind": "break", "edits": [{"patch": "/verif/benign/h8-plist-2/patch.diff"}, ("src/plist.rs", "            .map(|i| OsStr::from_bytes(&rest[i..]));", "            .map(|i| OsStr::from_bytes(&rest[i + 1..]));")], "expect": ["D1-"]},
 {"id": "split-at-argument-from-last-non-blank", "kind": "break", "edits": [{"patch": "/verif/benign/h8-plist-2/patch.diff"}, ("src/plist.rs", "            .position(|c| !c.is_ascii_whitespace())", "            .rposition(|c| !c.is_ascii_whitespace())")], "expect": ["D1-SPLIT"]},
 {"id": "split-at-argument-cut-from-whole-line", "kind": "break", "edits": [{"patch": "/verif/benign/h8-plist-2/patch.diff"}, ("src/plist.rs", "            .map(|i| OsStr::from_bytes(&rest[i..]));", "            .map(|i| OsStr::from_bytes(&bytes[i..]));")], "expect": ["D1-"]},

 # single pass, the recording guard reduced to `tstart < idx` (start <= tstart is the loop's invariant)
 {"id": "single-guard-benign", "kind": "benign", "edits": [{"patch": "/verif/benign/h8-plist-3/patch.diff"}]},
 {"id": "single-guard-cursor-not-reset", "kind": "break", "edits": [{"patch": "/verif/benign/h8-plist-3/patch.diff"}, ("src/plist.rs", "                start = idx + 1;\n                tstart = start;", "                start = idx + 1;")], "expect": ["D3-"]},
 {"id": "single-guard-blank-lines-recorded", "kind": "break", "edits": [{"patch": "/verif/benign/h8-plist-3/patch.diff"}, ("src/plist.rs", "                if tstart < idx {", "                if tstart <= idx {")], "expect": ["D3-"]},
 {"id": "single-guard-line-from-first-non-blank", "kind": "break", "edits": [{"patch": "/verif/benign/h8-plist-3/patch.diff"}, ("src/plist.rs", "PlistEntry::from_bytes(&bytes[start..idx])?", "PlistEntry::from_bytes(&bytes[tstart..idx])?")], "expect": ["D3-"]},
 {"id": "single-guard-last-line-guard-on-start", "kind": "break", "edits": [{"patch": "/verif/benign/h8-plist-3/patch.diff"}, ("src/plist.rs", "        if tstart < bytes.len() {", "        if start < bytes.len() {")], "expect": ["D3-"]},

 # the argument as rest[number of leading blanks ..] (take_while(blank).count())
 {"id": "leading-blank-count-benign", "kind": "benign", "edits": [{"patch": "/verif/benign/h9-plist-2/patch.diff"}]},
 {"id": "leading-blank-count-counts-non-blanks", "kind": "break", "edits": [{"patch": "/verif/benign/h9-plist-2/patch.diff"}, ("src/plist.rs", ".take_while(|c| c.is_ascii_whitespace())", ".take_while(|c| !c.is_ascii_whitespace())")], "expect": ["D1-"]},
 {"id": "leading-blank-count-all-blanks", "kind": "break", "edits": [{"patch": "/verif/benign/h9-plist-2/patch.diff"}, ("src/plist.rs", ".take_while(|c| c.is_ascii_whitespace())\n                    .count();", ".filter(|c| c.is_ascii_whitespace())\n                    .count();")], "expect": ["D1-"]},
 {"id": "leading-blank-count-one-more", "kind": "break", "edits": [{"patch": "/verif/benign/h9-plist-2/patch.diff"}, ("src/plist.rs", "Some(OsStr::from_bytes(&rest[skip..]))", "Some(OsStr::from_bytes(&rest[skip + 1..]))")], "expect": ["D1-"]},
 {"id": "leading-blank-count-counted-elsewhere", "kind": "break", "edits": [{"patch": "/verif/benign/h9-plist-2/patch.diff"}, ("src/plist.rs", "                let skip = rest\n", "                let skip = bytes\n")], "expect": ["D1-"]},

 # the argument split moved verbatim, with its loop, into split_args(bytes, sep): judged as part of from_bytes (the helper's blocks are spliced into the caller's graph)
 {"id": "looping-helper-benign", "kind": "benign", "edits": [{"patch": "/verif/benign/h10-plist-1/patch.diff"}]},
 {"id": "looping-helper-cursor-steps-two", "kind": "break", "edits": [{"patch": "/verif/benign/h10-plist-1/patch.diff"}, ("src/plist.rs", "            start += 1;\n        }\n        if start == end {", "            start += 2;\n        }\n        if start == end {")], "expect": ["D1-"]},
 {"id": "looping-helper-stops-at-first-blank", "kind": "break", "edits": [{"patch": "/verif/benign/h10-plist-1/patch.diff"}, ("src/plist.rs", "            if !c.is_ascii_whitespace() {\n                break;", "            if c.is_ascii_whitespace() {\n                break;")], "expect": ["D1-"]},
 {"id": "looping-helper-empty-argument-kept", "kind": "break", "edits": [{"patch": "/verif/benign/h10-plist-1/patch.diff"}, ("src/plist.rs", "        if start == end {\n            return None;\n        }\n        Some(OsStr::from_bytes(&bytes[start..end]))", "        Some(OsStr::from_bytes(&bytes[start..end]))")], "expect": ["D1-"]},
 {"id": "looping-helper-argument-from-separator", "kind": "break", "edits": [{"patch": "/verif/benign/h10-plist-1/patch.diff"}, ("src/plist.rs", "        Some(OsStr::from_bytes(&bytes[start..end]))", "        Some(OsStr::from_bytes(&bytes[sep..end]))")], "expect": ["D1-"]},
 {"id": "looping-helper-called-with-next-position", "kind": "break", "edits": [{"patch": "/verif/benign/h10-plist-1/patch.diff"}, ("src/plist.rs", "let args = Self::split_args(bytes, sep);", "let args = Self::split_args(bytes, sep + 2);")], "expect": ["D1-"]},
]
