L = "src/plist.rs"
MUTANTS = [
 {"id": "uninstall-keeps-ignore-flag", "kind": "break",
  "edits": [(L, "re:(pub fn uninstall_cmds.*?PlistEntry::File\\(_\\) => \\{\\s*if ignore \\{\\s*)ignore = false;\\s*false", "\\1false")],
  "expect": ["D1-TRANSDUCER@plist::Plist::uninstall_cmds::{closure#0}#File/ignore=True"]},
 {"id": "install-includes-unexec", "kind": "break",
  "edits": [(L, "                PlistEntry::Cwd(_)\n                | PlistEntry::Exec(_)\n", "                PlistEntry::Cwd(_)\n                | PlistEntry::Exec(_)\n                | PlistEntry::UnExec(_)\n")],
  "expect": ["D1-TRANSDUCER@plist::Plist::install_cmds::{closure#0}#UnExec"]},
 {"id": "uninstall-drops-dirrm", "kind": "break",
  "edits": [(L, "                | PlistEntry::PkgDir(_)\n                | PlistEntry::DirRm(_) => true,", "                | PlistEntry::PkgDir(_) => true,")],
  "expect": ["D1-TRANSDUCER@plist::Plist::uninstall_cmds::{closure#0}#DirRm"]},
 {"id": "files-comment-clears-ignore", "kind": "break",
  "edits": [(L, "re:(pub fn files\\(&self\\).*?Some\\(file\\.as_os_str\\(\\)\\)\\s*\\}\\s*\\}\\s*)_ => None,", "\\1PlistEntry::Comment(_) => {\n                    ignore = false;\n                    None\n                }\n                _ => None,")],
  "expect": ["D1-TRANSDUCER@plist::Plist::files::{closure#0}#Comment/ignore=True"]},
 {"id": "files-prefixed-ignore-not-reset", "kind": "break",
  "edits": [(L, "re:(pub fn files_prefixed.*?PlistEntry::File\\(file\\) => \\{\\s*if ignore \\{\\s*)ignore = false;\\s*None", "\\1None")],
  "expect": ["D1-TRANSDUCER@plist::Plist::files_prefixed::{closure#0}#File/ignore=True"]},
 {"id": "files-prefixed-always-slash", "kind": "break",
  "edits": [(L, "if !path.to_string_lossy().ends_with('/') {\n                            path.push(\"/\");\n                        }", "path.push(\"/\");")],
  "expect": ["D2-PREFIX"]},
 {"id": "files-prefixed-cwd-ignored", "kind": "break",
  "edits": [(L, "                PlistEntry::Cwd(dir) => {\n                    prefix = Some(dir.to_os_string());\n                    None\n                }", "                PlistEntry::Cwd(dir) => {\n                    if prefix.is_none() {\n                        prefix = Some(dir.to_os_string());\n                    }\n                    None\n                }")],
  "expect": ["D1-TRANSDUCER@plist::Plist::files_prefixed"]},
 {"id": "conflicts-returns-blddep", "kind": "break",
  "edits": [(L, "plist_match_filter_str!(self, PlistEntry::PkgCfl)", "plist_match_filter_str!(self, PlistEntry::BldDep)")],
  "expect": ["D3-KIND-FILTER@plist::Plist::conflicts"]},
 {"id": "display-returns-last", "kind": "break",
  "edits": [(L, "macro_rules! plist_find_first_osstr {\n    ($s:ident, $p:path) => {\n        $s.entries.iter().find_map(", "macro_rules! plist_find_first_osstr {\n    ($s:ident, $p:path) => {\n        $s.entries.iter().rev().find_map(")],
  "expect": ["D3-KIND-APPLY@plist::Plist::display"]},
 {"id": "is-preserve-any-option", "kind": "break",
  "edits": [(L, "matches!(entry, PlistEntry::PkgOpt(PlistOption::Preserve))", "matches!(entry, PlistEntry::PkgOpt(_) | PlistEntry::Mode(_))")],
  "expect": ["D3-PRESERVE"]},
 {"id": "install-flag-starts-true", "kind": "break",
  "edits": [(L, "re:(pub fn install_cmds\\(&self\\) -> Vec<&PlistEntry> \\{\\s*let mut ignore = )false;", "\\1true;")],
  "expect": ["D1-APPLY@plist::Plist::install_cmds"]},
 {"id": "benign-is-preserve-any", "kind": "benign",
  "edits": [(L, "            .filter(|entry| {\n                matches!(entry, PlistEntry::PkgOpt(PlistOption::Preserve))\n            })\n            .count()\n            > 0", "            .any(|entry| {\n                matches!(entry, PlistEntry::PkgOpt(PlistOption::Preserve))\n            })")]},
 {"id": "benign-install-arm-order", "kind": "benign",
  "edits": [(L, "                PlistEntry::Cwd(_)\n                | PlistEntry::Exec(_)\n                | PlistEntry::Mode(_)", "                PlistEntry::Mode(_)\n                | PlistEntry::Exec(_)\n                | PlistEntry::Cwd(_)")]},

 {"id": "probe-prefixed-always-adds-slash", "kind": "break", "edits": [(L, "                        if !path.to_string_lossy().ends_with('/') {\n                            path.push(\"/\");\n                        }", "                        path.push(\"/\");")], "expect": ["D2-"]},
 {"id": "probe-prefixed-cwd-resets-ignore", "kind": "break", "edits": [(L, "                PlistEntry::Cwd(dir) => {\n                    prefix = Some(dir.to_os_string());\n                    None", "                PlistEntry::Cwd(dir) => {\n                    prefix = Some(dir.to_os_string());\n                    ignore = false;\n                    None")], "expect": ["D1-"]},
 {"id": "probe-prefixed-first-cwd-wins", "kind": "break", "edits": [(L, "                PlistEntry::Cwd(dir) => {\n                    prefix = Some(dir.to_os_string());\n                    None", "                PlistEntry::Cwd(dir) => {\n                    if prefix.is_none() {\n                        prefix = Some(dir.to_os_string());\n                    }\n                    None")], "expect": ["D"]},

 {"id": "probe-depends-dedup", "kind": "break", "edits": [(L, "re:(?s)(pub fn depends\\(&self\\) -> Vec<&str> \\{\\n)(.*?)(\\n    \\})", "\\1        let mut v: Vec<&str> = {\n\\2\n        };\n        v.dedup();\n        v\\3")], "expect": ["D3-"]},
 {"id": "probe-pkgname-last-instead-of-first", "kind": "break", "edits": [(L, "re:(?s)(pub fn pkgname\\(&self\\) -> Option<&str> \\{\\n\\s*)plist_find_first_str!\\(self, PlistEntry::Name\\)", "\\1self.entries.iter().rev().find_map(|e| match e { PlistEntry::Name(s) => Some(s.as_str()), _ => None })")], "expect": ["D3-"]},
 # for-loop spelling of files() / files_prefixed() (benign/plist-3) and its one-line breakages
 {"id": "loop-form-views-benign", "kind": "benign", "edits": [{"patch": "/verif/benign/plist-3/patch.diff"}]},
 {"id": "loop-form-ignore-not-reset", "kind": "break", "edits": [{"patch": "/verif/benign/plist-3/patch.diff"}, ("src/plist.rs", "                PlistEntry::File(_) if ignore => ignore = false,\n                PlistEntry::File(file) => files.push(file.as_os_str()),", "                PlistEntry::File(_) if ignore => {}\n                PlistEntry::File(file) => files.push(file.as_os_str()),")], "expect": ["D1-TRANSDUCER"]},
 {"id": "loop-form-cwd-resets-ignore", "kind": "break", "edits": [{"patch": "/verif/benign/plist-3/patch.diff"}, ("src/plist.rs", "                PlistEntry::Cwd(dir) => prefix = dir.as_os_str(),", "                PlistEntry::Cwd(dir) => {\n                    prefix = dir.as_os_str();\n                    ignore = false;\n                }")], "expect": ["D1-TRANSDUCER"]},
 {"id": "loop-form-slash-always", "kind": "break", "edits": [{"patch": "/verif/benign/plist-3/patch.diff"}, ("src/plist.rs", "                    if !prefix.as_bytes().ends_with(b\"/\") {\n                        path.push(\"/\");\n                    }", "                    path.push(\"/\");")], "expect": ["D2-PREFIX"]},
 {"id": "loop-form-stops-at-first-ignore", "kind": "break", "edits": [{"patch": "/verif/benign/plist-3/patch.diff"}, ("src/plist.rs", "                PlistEntry::Ignore => ignore = true,\n                PlistEntry::File(_) if ignore => ignore = false,\n                PlistEntry::File(file) => files.push(file.as_os_str()),", "                PlistEntry::Ignore => break,\n                PlistEntry::File(_) if ignore => ignore = false,\n                PlistEntry::File(file) => files.push(file.as_os_str()),")], "expect": ["D1-"]},
 {"id": "loop-form-prefix-starts-nonempty", "kind": "break", "edits": [{"patch": "/verif/benign/plist-3/patch.diff"}, ("src/plist.rs", 'let mut prefix: &OsStr = OsStr::new("");', 'let mut prefix: &OsStr = OsStr::new(".");')], "expect": ["D2-PREFIX"]},

 # @ignore handling shared through a helper taking &mut bool (benign/h2-plist-3) and its one-line breakages
 {"id": "live-file-helper-benign", "kind": "benign", "edits": [{"patch": "/verif/benign/h2-plist-3/patch.diff"}]},
 {"id": "live-file-helper-flag-not-cleared", "kind": "break", "edits": [{"patch": "/verif/benign/h2-plist-3/patch.diff"}, ("src/plist.rs", "                if *ignore {\n                    *ignore = false;\n                    None", "                if *ignore {\n                    None")], "expect": ["D1-TRANSDUCER"]},
 {"id": "live-file-helper-ignore-emits", "kind": "break", "edits": [{"patch": "/verif/benign/h2-plist-3/patch.diff"}, ("src/plist.rs", "                PlistEntry::Ignore | PlistEntry::File(_) => {\n                    entry.live_file(&mut ignore).is_some()", "                PlistEntry::Ignore | PlistEntry::File(_) => {\n                    entry.live_file(&mut ignore).is_none()", 2)], "expect": ["D1-TRANSDUCER"]},

 # @ignore state in a small struct, stateful filter followed by a stateless projection (benign/h3-plist-3) and its one-line breakages
 {"id": "ignore-struct-benign", "kind": "benign", "edits": [{"patch": "/verif/benign/h3-plist-3/patch.diff"}]},
 {"id": "ignore-struct-take-missing", "kind": "break", "edits": [{"patch": "/verif/benign/h3-plist-3/patch.diff"}, ("src/plist.rs", "PlistEntry::File(_) => !std::mem::take(&mut self.pending),", "PlistEntry::File(_) => !self.pending,")], "expect": ["D1-TRANSDUCER"]},
 {"id": "ignore-struct-starts-pending", "kind": "break", "edits": [{"patch": "/verif/benign/h3-plist-3/patch.diff"}, ("src/plist.rs", "        let mut ignore = IgnoreNext::default();\n        self.entries\n            .iter()\n            .filter(|entry| ignore.is_listed_file(entry))", "        let mut ignore = IgnoreNext { pending: true };\n        self.entries\n            .iter()\n            .filter(|entry| ignore.is_listed_file(entry))")], "expect": ["D1-APPLY"]},
 {"id": "ignore-struct-projection-drops-files", "kind": "break", "edits": [{"patch": "/verif/benign/h3-plist-3/patch.diff"}, ("src/plist.rs", "                PlistEntry::File(file) => Some(file.as_os_str()),", "                PlistEntry::File(file) if !file.is_empty() => Some(file.as_os_str()),")], "expect": ["D1-"]},

 # install_cmds / uninstall_cmds through a shared filter_cmds(wanted) helper (benign/h4-plist-3) and its one-line breakages
 {"id": "filter-cmds-helper-benign", "kind": "benign", "edits": [{"patch": "/verif/benign/h4-plist-3/patch.diff"}]},
 {"id": "filter-cmds-wanted-missing-kind", "kind": "break", "edits": [{"patch": "/verif/benign/h4-plist-3/patch.diff"}, ("src/plist.rs", "                    | PlistEntry::UnExec(_)\n", "")], "expect": ["D1-TRANSDUCER"]},
 {"id": "filter-cmds-helper-ignore-not-consumed", "kind": "break", "edits": [{"patch": "/verif/benign/h4-plist-3/patch.diff"}, ("src/plist.rs", "!std::mem::take(&mut ignore)", "!ignore")], "expect": ["D1-TRANSDUCER"]},


 # the '/' test as path.as_bytes().last() != Some(&b'/')
 {"id": "slash-test-on-last-byte-benign", "kind": "benign", "edits": [{"patch": "/verif/benign/h10-plist-2/patch.diff"}]},
 {"id": "slash-test-on-last-byte-inverted", "kind": "break", "edits": [{"patch": "/verif/benign/h10-plist-2/patch.diff"}, ("src/plist.rs", "if path.as_bytes().last() != Some(&b'/') {", "if path.as_bytes().last() == Some(&b'/') {")], "expect": ["D2-PREFIX"]},
 {"id": "slash-test-on-first-byte", "kind": "break", "edits": [{"patch": "/verif/benign/h10-plist-2/patch.diff"}, ("src/plist.rs", "if path.as_bytes().last() != Some(&b'/') {", "if path.as_bytes().first() != Some(&b'/') {")], "expect": ["D2-PREFIX"]},
 {"id": "slash-test-for-backslash", "kind": "break", "edits": [{"patch": "/verif/benign/h10-plist-2/patch.diff"}, ("src/plist.rs", "if path.as_bytes().last() != Some(&b'/') {", "if path.as_bytes().last() != Some(&b'\\\\') {")], "expect": ["D2-PREFIX"]},
]
