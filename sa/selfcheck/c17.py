D = "src/dewey.rs"; M = "src/metadata.rs"; K = "src/pkgdb.rs"; P = "src/pattern.rs"; S = "src/summary.rs"; L = "src/plist.rs"; I = "src/distinfo.rs"; X = "src/scanindex.rs"
MUTANTS = [
 {"id": "regress-parse-unwrap", "kind": "break", "edits": [(D, "version.push(numstr.parse::<i64>().unwrap_or(i64::MAX));", "version.push(numstr.parse::<i64>().unwrap());")], "expect": ["PANIC@dewey::DeweyVersion::new#call:unwrap"]},
 {"id": "regress-metadata-unwrap", "kind": "break", "edits": [(M, 'self.size_pkg = Some(val_i64.map_err(|_| "Invalid +SIZE_PKG")?)', "self.size_pkg = Some(val_i64.unwrap())")], "expect": ["PANIC@metadata::Metadata::read_metadata#call:unwrap"]},
 {"id": "regress-readdir-expect", "kind": "break", "edits": [(K, "db.readdir = Some(fs::read_dir(&db.path)?);", 'db.readdir = Some(fs::read_dir(&db.path).expect("fail"));')], "expect": ["PANIC@pkgdb::PkgDB::open#call:expect"]},
 {"id": "regress-pkgdb-index-without-guard", "kind": "break",
  "edits": [(K, "let (pkgbase, pkgversion) =\n                                    p.rsplit_once('-').unwrap_or((p, \"\"));", "let v: Vec<&str> = p.rsplitn(2, '-').collect();\n                                let (pkgbase, pkgversion) = (v[1], v[0]);")], "expect": ["PANIC@<pkgdb::PkgDB as std::iter::Iterator>::next#call:index"]},
 {"id": "depend-index-before-length-check", "kind": "break",
  "edits": [("src/depend.rs", "        if v.len() != 2 {\n            return Err(DependError::Invalid);\n        }\n        let pattern = Pattern::new(v[0])?;", "        let pattern = Pattern::new(v[0])?;\n        if v.len() != 2 {\n            return Err(DependError::Invalid);\n        }")], "expect": ["PANIC@depend::Depend::new"]},
 {"id": "summary-parseline-check-removed", "kind": "break",
  "edits": [(S, "            if v.len() != 2 {\n                return Err(SummaryError::ParseLine(line.to_string()));\n            }\n", "")], "expect": ["PANIC@<summary::Summary as std::str::FromStr>::from_str"]},
 {"id": "tokeniser-separator-no-advance", "kind": "break", "edits": [(D, "                version.push(0);\n                idx += 1;\n                continue;", "                version.push(0);\n                continue;")], "expect": ["TERM@dewey::DeweyVersion::new"]},
 {"id": "tokeniser-empty-run-advance", "kind": "break",
  "edits": [(D, "            if !numstr.is_empty() {\n                /* Only fails on overflow, saturate rather than panic. */\n                version.push(numstr.parse::<i64>().unwrap_or(i64::MAX));\n                idx += numstr.len();\n                continue;\n            }", "            if !numstr.is_empty() || c == '+' {\n                version.push(numstr.parse::<i64>().unwrap_or(i64::MAX));\n                idx += numstr.len();\n                continue;\n            }")], "expect": ["TERM@dewey::DeweyVersion::new"]},
 {"id": "tokeniser-letter-advance-two", "kind": "break", "edits": [(D, "                version.push(c.to_ascii_lowercase() as i64);\n                idx += 1;", "                version.push(c.to_ascii_lowercase() as i64);\n                idx += 2;")], "expect": ["C01:D1-TOK-TABLE", "row=letter"], "property": "C01"},
 {"id": "quick-match-unwrap-before-check", "kind": "break",
  "edits": [(P, "        p = p1.next();\n        if p.is_none() || !Self::is_simple_char(p.unwrap()) {\n            return true;\n        }\n        if p != p2.next() {\n            return false;\n        }\n\n        p = p1.next();", "        p = p1.next();\n        if !Self::is_simple_char(p.unwrap()) || p.is_none() {\n            return true;\n        }\n        if p != p2.next() {\n            return false;\n        }\n\n        p = p1.next();")], "expect": ["PANIC@pattern::Pattern::quick_pkg_match#call:unwrap"]},
 {"id": "distinfo-paren-check-on-empty-field", "kind": "break", "edits": [(I, "                /* Skip extra whitespace */\n                if s.is_empty() {\n                    continue;\n                }\n", "")], "expect": ["PANIC@distinfo::Line::from_bytes"]},
 {"id": "summary-rogue-kind-panics", "kind": "break", "edits": [(S, "SummaryValue::S(homepage.to_string()),", "SummaryValue::A(vec![homepage.to_string()]),")], "expect": ["PANIC-INTERNAL"]},
 {"id": "plist-loop-with-manual-counter", "kind": "break",
  "edits": [(L, "        for (start, end) in lines {\n            plist\n                .entries\n                .push(PlistEntry::from_bytes(&bytes[start..end])?);\n        }", "        let mut li = 0;\n        while li < lines.len() {\n            let (start, end) = lines[li];\n            plist\n                .entries\n                .push(PlistEntry::from_bytes(&bytes[start..end])?);\n            if !bytes.is_empty() { li += 1; }\n        }")], "expect": ["TERM@plist::Plist::from_bytes"]},
 {"id": "unregistered-recursion", "kind": "break",
  "edits": [("src/pkgname.rs", "    pub fn pkgname(&self) -> &str {\n        &self.pkgname\n    }", "    pub fn pkgname(&self) -> &str {\n        if self.pkgname.len() > usize::MAX - 1 {\n            return self.pkgname();\n        }\n        &self.pkgname\n    }")], "expect": ["TERM-RECURSION"]},
 {"id": "benign-unrelated-edit-in-exempted-function", "kind": "benign",
  "edits": [(D, "        let mut version: Vec<i64> = vec![];\n        let mut pkgrevision = 0;", "        let mut version: Vec<i64> = Vec::with_capacity(8);\n        let unused_hint = s.len();\n        let _ = unused_hint;\n        let mut pkgrevision = 0;")]},
 {"id": "benign-if-let-instead-of-unwrap", "kind": "benign",
  "edits": [(P, "        p = p1.next();\n        if p.is_none() || !Self::is_simple_char(p.unwrap()) {\n            return true;\n        }\n        if p != p2.next() {\n            return false;\n        }\n\n        p = p1.next();", "        p = p1.next();\n        match p {\n            Some(c) if Self::is_simple_char(c) => {}\n            _ => return true,\n        }\n        if p != p2.next() {\n            return false;\n        }\n\n        p = p1.next();")]},
 {"id": "benign-rename-cursor", "kind": "benign", "edits": [(D, "re:\\bidx\\b", "pos", 16)]},

 {"id": "probe-panic-expect-on-parse", "kind": "break", "edits": [(D, "pkgrevision = nbstr.parse::<i64>().unwrap_or(0);", "pkgrevision = if nbstr.is_empty() { 0 } else { nbstr.parse::<i64>().expect(\"digits\") };")], "expect": ["PANIC"]},
 {"id": "probe-panic-slice-first-two-bytes", "kind": "break", "edits": [(P, "    fn is_simple_char(c: char) -> bool {", "    #[allow(dead_code)]\n    fn first_two(s: &str) -> &str {\n        &s[..2]\n    }\n\n    fn is_simple_char(c: char) -> bool {")], "expect": ["PANIC"]},
 {"id": "probe-hang-cursor-not-advanced-on-other", "kind": "break", "edits": [(D, "            } else {\n                idx += c.len_utf8();\n            }", "            } else if !c.is_ascii() {\n                idx += c.len_utf8();\n            } else if c != '+' {\n                idx += 1;\n            }")], "expect": ["TERM"]},
 {"id": "probe-benign-cut-at-first-non-digit-byte", "kind": "benign", "edits": [(P, "    fn is_simple_char(c: char) -> bool {", "    #[allow(dead_code)]\n    fn lead(s: &str) -> &str {\n        let end = s.bytes().position(|b| !b.is_ascii_digit()).unwrap_or(s.len());\n        &s[..end]\n    }\n\n    fn is_simple_char(c: char) -> bool {")]},
 {"id": "probe-benign-cut-at-first-dot-byte", "kind": "benign", "edits": [(P, "    fn is_simple_char(c: char) -> bool {", "    #[allow(dead_code)]\n    fn lead(s: &str) -> &str {\n        match s.bytes().position(|b| b == b'.') {\n            Some(end) => &s[..end],\n            None => s,\n        }\n    }\n\n    fn is_simple_char(c: char) -> bool {")]},
 {"id": "probe-panic-cut-at-continuation-byte", "kind": "break", "edits": [(P, "    fn is_simple_char(c: char) -> bool {", "    #[allow(dead_code)]\n    fn lead(s: &str) -> &str {\n        let end = s.bytes().position(|b| b == 0xA9 || b == b'.').unwrap_or(s.len());\n        &s[..end]\n    }\n\n    fn is_simple_char(c: char) -> bool {")], "expect": ["PANIC"]},
 {"id": "probe-panic-cut-after-first-non-digit-byte", "kind": "break", "edits": [(P, "    fn is_simple_char(c: char) -> bool {", "    #[allow(dead_code)]\n    fn lead(s: &str) -> &str {\n        let end = s.bytes().position(|b| !b.is_ascii_digit()).unwrap_or(0);\n        &s[..end + 1]\n    }\n\n    fn is_simple_char(c: char) -> bool {")], "expect": ["PANIC"]},
 {"id": "table-form-benign", "kind": "benign", "edits": [{"patch": "/verif/benign/dewey-1/patch.diff"}]},
 {"id": "table-form-empty-literal-hangs", "kind": "break", "edits": [{"patch": "/verif/benign/dewey-1/patch.diff"}, (D, '("pl", 0)]', '("", 0)]')], "expect": ["TERM@dewey::DeweyVersion::new"]},
 {"id": "slicepat-form-benign", "kind": "benign", "edits": [{"patch": "/verif/benign/m-dewey-2/patch.diff"}]},
 {"id": "veclit-form-benign", "kind": "benign", "edits": [{"patch": "/verif/benign/dewey-2/patch.diff"}]},
 {"id": "slicepat-cut-two-past-match", "kind": "break", "edits": [{"patch": "/verif/benign/m-dewey-2/patch.diff"}, (D, "let inclusive = pattern[index + 1..].starts_with('=');", "let inclusive = pattern[index + 2..].starts_with('=');")], "expect": ["PANIC@dewey::Dewey::new#call:index"]},
 {"id": "slicepat-third-record-without-length", "kind": "break", "edits": [{"patch": "/verif/benign/m-dewey-2/patch.diff"}, (D, "        let pkgname = pattern[0..deweyops[0].0].to_string();", "        let pkgname = pattern[0..deweyops[0].0].to_string();\n        let _third = deweyops[2].0;")], "expect": ["PANIC@dewey::Dewey::new#call:index"]},
 {"id": "matcharm-form-benign", "kind": "benign", "edits": [{"patch": "/verif/benign/m-distinfo-2/patch.diff"}]},
 {"id": "stripform-benign", "kind": "benign", "edits": [{"patch": "/verif/benign/distinfo-3/patch.diff"}]},
 {"id": "counted-start-one-past-end", "kind": "break", "edits": [{"patch": "/verif/benign/m-distinfo-2/patch.diff"}, ("src/distinfo.rs", ".unwrap_or(line.len());\n            let line = &line[start..];", ".unwrap_or(line.len());\n            let line = &line[start + 1..];")], "expect": ["PANIC@distinfo::Line::from_bytes#call:index"]},
 {"id": "counted-start-default-past-end", "kind": "break", "edits": [{"patch": "/verif/benign/m-distinfo-2/patch.diff"}, ("src/distinfo.rs", ".unwrap_or(line.len());\n            let line = &line[start..];", ".unwrap_or(line.len() + 1);\n            let line = &line[start..];")], "expect": ["PANIC@distinfo::Line::from_bytes#call:index"]},
 {"id": "counter-form-benign", "kind": "benign", "edits": [{"patch": "/verif/benign/m-pattern-1/patch.diff"}]},
 {"id": "helper-form-benign", "kind": "benign", "edits": [{"patch": "/verif/benign/pattern-1/patch.diff"}]},
 {"id": "counter-decrement-unguarded", "kind": "break", "edits": [{"patch": "/verif/benign/m-pattern-1/patch.diff"}, ("src/pattern.rs", "                    '}' if depth == 0 => return Err(PatternError::Alternate),\n", "")], "expect": ["PANIC@pattern::Pattern::new#assert:Overflow(Sub)"]},
 {"id": "any-form-split-once-benign", "kind": "benign", "edits": [{"patch": "/verif/benign/m-pattern-3/patch.diff"}]},
 {"id": "any-form-slices-benign", "kind": "benign", "edits": [{"patch": "/verif/benign/pattern-3/patch.diff"}]},
 {"id": "any-form-alternatives-from-two", "kind": "break", "edits": [{"patch": "/verif/benign/pattern-3/patch.diff"}, ("src/pattern.rs", "let alternatives = &rest[1..close];", "let alternatives = &rest[2..close];")], "expect": ["PANIC@pattern::Pattern::alternate_match#call:index"]},
 {"id": "collect-form-benign", "kind": "benign", "edits": [{"patch": "/verif/benign/plist-2/patch.diff"}]},
 {"id": "collect-form-slice-one-past-end", "kind": "break", "edits": [{"patch": "/verif/benign/plist-2/patch.diff"}, ("src/plist.rs", ".map(|(start, end)| PlistEntry::from_bytes(&bytes[start..end]))", ".map(|(start, end)| PlistEntry::from_bytes(&bytes[start..end + 1]))")], "expect": ["PANIC@plist::Plist::from_bytes::{closure#0}#call:index"]},
 {"id": "collect-form-pair-recorded-reversed", "kind": "break", "edits": [{"patch": "/verif/benign/plist-2/patch.diff"}, ("src/plist.rs", "lines.push((start, bytes.len()));", "lines.push((bytes.len(), start));")], "expect": ["PANIC@plist::Plist::from_bytes::{closure#0}#call:index"]},
 {"id": "loop-form-pair-recorded-reversed", "kind": "break", "edits": [("src/plist.rs", "lines.push((start, bytes.len()));", "lines.push((bytes.len(), start));")], "expect": ["PANIC@plist::Plist::from_bytes#call:index"]},
 {"id": "single-pass-benign", "kind": "benign", "edits": [{"patch": "/verif/benign/m-plist-2/patch.diff"}]},
 # (this one used to be listed as a break: it is not one -- start <= tstart is the scan loop's invariant, so `tstart < idx` alone orders the slice;
 #  the held-out patch h8-plist-3 makes exactly this edit)
 {"id": "single-pass-slice-ordered-by-invariant", "kind": "benign", "edits": [{"patch": "/verif/benign/m-plist-2/patch.diff"}, ("src/plist.rs", "if start < idx && tstart < idx {\n                    let entry", "if tstart < idx {\n                    let entry")]},
 {"id": "read-until-form-benign", "kind": "benign", "edits": [{"patch": "/verif/benign/digest-2/patch.diff"}]},
 {"id": "read-until-loop-ignores-eof", "kind": "break", "edits": [{"patch": "/verif/benign/digest-2/patch.diff"}, ("src/digest.rs", "        if bufreader.read_until(b'\\n', &mut line)? == 0 {\n            break;\n        }", "        if bufreader.read_until(b'\\n', &mut line)? == 0 && line.len() > 1 {\n            break;\n        }")], "expect": ["TERM@digest::hash_patch_internal"]},
 {"id": "opspan-struct-benign", "kind": "benign", "edits": [{"patch": "/verif/benign/h3-dewey-2/patch.diff"}]},
 {"id": "opspan-slice-between-wrong-records", "kind": "break", "edits": [{"patch": "/verif/benign/h3-dewey-2/patch.diff"}, ("src/dewey.rs", "let p = &pattern[lower.version..upper.start];", "let p = &pattern[upper.version..lower.start];")], "expect": ["PANIC@dewey::Dewey::new#call:index"]},
 {"id": "index-cursor-benign", "kind": "benign", "edits": [{"patch": "/verif/benign/h3-plist-1/patch.diff"}]},
 {"id": "index-cursor-unchecked-index", "kind": "break", "edits": [{"patch": "/verif/benign/h3-plist-1/patch.diff"}, ("src/plist.rs", "while idx < end && bytes[idx].is_ascii_whitespace() {", "while bytes[idx].is_ascii_whitespace() {")], "expect": ["PANIC@plist::PlistEntry::from_bytes#assert:BoundsCheck"]},
 {"id": "index-cursor-step-two-overruns", "kind": "break", "edits": [{"patch": "/verif/benign/h3-plist-1/patch.diff"}, ("src/plist.rs", "while idx < end && bytes[idx].is_ascii_whitespace() {\n                idx += 1;", "while idx < end && bytes[idx].is_ascii_whitespace() {\n                idx += 2;")], "expect": ["PANIC@plist::PlistEntry::from_bytes#call:index"]},
 {"id": "index-cursor-never-advances", "kind": "break", "edits": [{"patch": "/verif/benign/h3-plist-1/patch.diff"}, ("src/plist.rs", "while idx < end && bytes[idx].is_ascii_whitespace() {\n                idx += 1;", "while idx < end && bytes[idx].is_ascii_whitespace() {\n                idx += 0;")], "expect": ["TERM@plist::PlistEntry::from_bytes"]},
 {"id": "nibble-table-benign", "kind": "benign", "edits": [{"patch": "/verif/benign/h3-digest-1/patch.diff"}]},
 {"id": "nibble-table-index-unmasked", "kind": "break", "edits": [{"patch": "/verif/benign/h3-digest-1/patch.diff"}, ("src/digest.rs", "HEX_DIGITS[usize::from(b & 0x0f)]", "HEX_DIGITS[usize::from(b & 0x1f)]")], "expect": ["PANIC@digest::finish#assert:BoundsCheck"]},
 {"id": "nibble-table-shift-too-small", "kind": "break", "edits": [{"patch": "/verif/benign/h3-digest-1/patch.diff"}, ("src/digest.rs", "HEX_DIGITS[usize::from(b >> 4)]", "HEX_DIGITS[usize::from(b >> 3)]")], "expect": ["PANIC@digest::finish#assert:BoundsCheck"]},
 {"id": "probe-panic-division-by-len", "kind": "break", "edits": [(S, "        let slen = input_string.len();", "        let slen = input_string.len();\n        let _avg = slen / self.entries.len();")], "expect": ["PANIC"]},
 {"id": "probe-panic-remove-first-entry", "kind": "break", "edits": [(L, "        Ok(plist)\n    }\n\n    /**\n     * Return the package name as specified", "        if plist.entries.len() > 1000000 {\n            plist.entries.remove(0);\n        }\n        Ok(plist)\n    }\n\n    /**\n     * Return the package name as specified")], "expect": []},
]

from selfcheck.c02 import MUTANTS as _C02  # noqa: E402
from selfcheck.c01 import MUTANTS as _C01  # noqa: E402
from selfcheck.c08 import MUTANTS as _C08  # noqa: E402
MUTANTS.append(dict(next(m for m in _C02 if m["id"] == "benign-name-split-extracted-into-helper"), id="benign-dewey-split-extracted-into-helper"))
MUTANTS.append(dict(next(m for m in _C01 if m["id"] == "benign-digit-run-extracted-into-helper"), id="benign-digit-run-extracted-into-helper"))
MUTANTS.append(dict(next(m for m in _C08 if m["id"] == "benign-line-split-extracted-into-fallible-helper"), id="benign-summary-line-split-extracted-into-helper"))
from selfcheck.c03 import MUTANTS as _C03  # noqa: E402
MUTANTS.append(dict(next(m for m in _C03 if m["id"] == "benign-component-access-extracted-into-helper"), id="benign-unchecked-index-helper-guarded-by-callers"))
# the same helper, but one call site uses an index that is NOT drawn from a range bounded by the length: must be reported
MUTANTS.append({"id": "unchecked-index-helper-misused", "kind": "break",
                "edits": _C03[[m["id"] for m in _C03].index("benign-component-access-extracted-into-helper")]["edits"] + [
                    ("src/dewey.rs", "    let llen = lhs.version.len();\n    let rlen = rhs.version.len();\n", "    let llen = lhs.version.len();\n    let rlen = rhs.version.len();\n    if component(lhs, rlen) == i64::MIN {\n        return false;\n    }\n")],
                "expect": ["PANIC@dewey::component"]})
MUTANTS += [
 # the stream buffer split at the end of the last complete record, computed by a helper over windows(2)
 {"id": "window-end-split-benign", "kind": "benign", "edits": [{"patch": "/verif/benign/h4-summary-3/patch.diff"}]},
 {"id": "window-end-split-one-past", "kind": "break", "edits": [{"patch": "/verif/benign/h4-summary-3/patch.diff"}, ("src/summary.rs", "self.buf = self.buf.split_off(last);", "self.buf = self.buf.split_off(last + 1);")], "expect": ["PANIC@", "split_off"]},
 {"id": "window-end-helper-adds-three", "kind": "break", "edits": [{"patch": "/verif/benign/h4-summary-3/patch.diff"}, ("src/summary.rs", "        .map(|pos| pos + 2)", "        .map(|pos| pos + 3)")], "expect": ["PANIC@"]},
 {"id": "window-end-over-chunks", "kind": "break", "edits": [{"patch": "/verif/benign/h4-summary-3/patch.diff"}, ("src/summary.rs", "    buf.windows(2)\n        .rposition", "    buf.chunks(2)\n        .rposition")], "expect": ["PANIC@"]},
]
MUTANTS += [
 # fields drawn from .filter(|s| !s.is_empty()); the parenthesised name cut between two different end bytes
 {"id": "filtered-fields-benign", "kind": "benign", "edits": [{"patch": "/verif/benign/h4-distinfo-2/patch.diff"}]},
 {"id": "filtered-fields-filter-dropped", "kind": "break", "edits": [{"patch": "/verif/benign/h4-distinfo-2/patch.diff"}, ("src/distinfo.rs", "                .split(|c| c.is_ascii_whitespace())\n                .filter(|s| !s.is_empty());", "                .split(|c| c.is_ascii_whitespace());")], "expect": ["PANIC@distinfo::Line::from_bytes"]},
 {"id": "filtered-fields-filter-inverted", "kind": "break", "edits": [{"patch": "/verif/benign/h4-distinfo-2/patch.diff"}, ("src/distinfo.rs", ".filter(|s| !s.is_empty());", ".filter(|s| s.is_empty());")], "expect": ["PANIC@distinfo::Line::from_bytes"]},
 {"id": "filtered-fields-filter-other-test", "kind": "break", "edits": [{"patch": "/verif/benign/h4-distinfo-2/patch.diff"}, ("src/distinfo.rs", ".filter(|s| !s.is_empty());", ".filter(|s| s.len() != 1);")], "expect": ["PANIC@distinfo::Line::from_bytes"]},
 {"id": "paren-ends-either-suffices", "kind": "break", "edits": [{"patch": "/verif/benign/h4-distinfo-2/patch.diff"}, ("src/distinfo.rs", "if s[0] != b'(' || s[s.len() - 1] != b')' {", "if s[0] != b'(' && s[s.len() - 1] != b')' {")], "expect": ["PANIC@distinfo::Line::from_bytes"]},
 {"id": "paren-ends-same-byte", "kind": "break", "edits": [{"patch": "/verif/benign/h4-distinfo-2/patch.diff"}, ("src/distinfo.rs", "if s[0] != b'(' || s[s.len() - 1] != b')' {", "if s[0] != b'|' || s[s.len() - 1] != b'|' {")], "expect": ["PANIC@distinfo::Line::from_bytes"]},
 {"id": "paren-cut-two-from-the-end", "kind": "break", "edits": [{"patch": "/verif/benign/h4-distinfo-2/patch.diff"}, ("src/distinfo.rs", "path.push(OsStr::from_bytes(&s[1..s.len() - 1]));", "path.push(OsStr::from_bytes(&s[1..s.len() - 2]));")], "expect": ["PANIC@distinfo::Line::from_bytes"]},
 {"id": "paren-ends-same-byte-baseline", "kind": "break", "edits": [("src/distinfo.rs", "if s[0] == b'(' && s[s.len() - 1] == b')' {", "if s[0] == b'|' && s[s.len() - 1] == b'|' {")], "expect": ["PANIC@distinfo::Line::from_bytes"]},
]
MUTANTS += [
 # a helper scanning backwards with an index cursor that starts at the length (judged by C17 only: C09 does not recognise this form)
 {"id": "descending-cursor-silent-for-c17", "kind": "benign", "edits": [{"patch": "/verif/benign/h3-summary-2/patch.diff"}]},
 {"id": "descending-cursor-guard-too-low", "kind": "break", "edits": [{"patch": "/verif/benign/h3-summary-2/patch.diff"}, ("src/summary.rs", "    while end >= 2 {", "    while end >= 1 {")], "expect": ["PANIC@summary::complete_records_len"]},
 {"id": "descending-cursor-starts-past-the-end", "kind": "break", "edits": [{"patch": "/verif/benign/h3-summary-2/patch.diff"}, ("src/summary.rs", "    let mut end = buf.len();", "    let mut end = buf.len() + 1;")], "expect": ["PANIC@summary::complete_records_len"]},
 {"id": "descending-cursor-never-moves", "kind": "break", "edits": [{"patch": "/verif/benign/h3-summary-2/patch.diff"}, ("src/summary.rs", "        end -= 1;\n", "")], "expect": ["TERM@summary::complete_records_len"]},
 {"id": "descending-cursor-result-one-past", "kind": "break", "edits": [{"patch": "/verif/benign/h3-summary-2/patch.diff"}, ("src/summary.rs", "            return Some(end);", "            return Some(end + 1);")], "expect": ["PANIC@<summary::SummaryStream as std::io::Write>::write"]},
]
MUTANTS += [
 # readdir.expect(..) is safe because of a struct invariant (dbtype == Files => readdir is Some) and the test of dbtype before it
 {"id": "pkgdb-open-files-without-handle", "kind": "break", "edits": [("src/pkgdb.rs", "            db.readdir = Some(fs::read_dir(&db.path)?);", "            let _ = fs::read_dir(&db.path)?;")], "expect": ["PANIC@<pkgdb::PkgDB as std::iter::Iterator>::next"]},
 {"id": "pkgdb-handle-reset-by-a-method", "kind": "break", "edits": [("src/pkgdb.rs", "    /**\n     * Ensure package directory is valid.", "    /**\n     * Forget the directory handle.\n     */\n    pub fn close(&mut self) {\n        self.readdir = None;\n    }\n\n    /**\n     * Ensure package directory is valid.")], "expect": ["PANIC@<pkgdb::PkgDB as std::iter::Iterator>::next"]},
 {"id": "pkgdb-handle-taken-by-a-method", "kind": "break", "edits": [("src/pkgdb.rs", "    /**\n     * Ensure package directory is valid.", "    /**\n     * Hand the directory handle to the caller.\n     */\n    pub fn into_readdir(&mut self) -> Option<fs::ReadDir> {\n        self.readdir.take()\n    }\n\n    /**\n     * Ensure package directory is valid.")], "expect": ["PANIC@<pkgdb::PkgDB as std::iter::Iterator>::next"]},
 {"id": "pkgdb-expect-in-database-arm", "kind": "break", "edits": [("src/pkgdb.rs", "            DBType::Database => None,", "            DBType::Database => self.readdir.as_mut().expect(\"Bad pkgdb read\").next().map(|_| Ok(package)),")], "expect": ["PANIC@<pkgdb::PkgDB as std::iter::Iterator>::next"]},
 {"id": "pkgdb-private-constructor-benign", "kind": "benign", "edits": [{"patch": "/verif/benign/h3-pkgdb-1/patch.diff"}]},
 {"id": "pkgdb-if-let-database-benign", "kind": "benign", "edits": [{"patch": "/verif/benign/h3-pkgdb-2/patch.diff"}]},
]
MUTANTS += [
 # probes of the three exemptions whose invariant is an argument about a loop-carried cursor or about a neighbouring split
 {"id": "probe-distinfo-leading-blank-count-steps-two", "kind": "break", "edits": [("src/distinfo.rs", "                start += 1;", "                start += 2;")], "expect": ["PANIC@distinfo::Line::from_bytes"]},
 {"id": "probe-plist-arg-cursor-steps-two", "kind": "break", "edits": [("src/plist.rs", "                    idx += 1;", "                    idx += 2;")], "expect": ["PANIC@plist::PlistEntry::from_bytes"]},
 {"id": "probe-pattern-group-cut-before-closing-brace", "kind": "break", "edits": [("src/pattern.rs", "let (matches, last) = rest.split_at(n + 1);", "let (matches, last) = rest.split_at(n);")], "expect": ["PANIC@pattern::Pattern::alternate_match"]},
]
MUTANTS += [
 {"id": "branch-tail-slices-benign", "kind": "benign", "edits": [{"patch": "/verif/benign/h5-dewey-2/patch.diff"}]},
 {"id": "branch-tail-slice-on-the-wrong-branch", "kind": "break", "edits": [{"patch": "/verif/benign/h5-dewey-2/patch.diff"}, ("src/dewey.rs", "        Ordering::Less => {\n            if let Some(&r) = rhs.version[llen..]", "        Ordering::Greater => {\n            if let Some(&r) = rhs.version[llen..]"), ("src/dewey.rs", "        Ordering::Greater => {\n            if let Some(&l) = lhs.version[rlen..]", "        Ordering::Less => {\n            if let Some(&l) = lhs.version[rlen..]")], "expect": ["PANIC@dewey::dewey_cmp"]},
]
MUTANTS += [
 {"id": "paren-starts-ends-with-benign", "kind": "benign", "edits": [{"patch": "/verif/benign/h5-distinfo-2/patch.diff"}]},
 {"id": "paren-starts-ends-with-same-byte", "kind": "break", "edits": [{"patch": "/verif/benign/h5-distinfo-2/patch.diff"}, ("src/distinfo.rs", 'if !(s.starts_with(b"(") && s.ends_with(b")")) {', 'if !(s.starts_with(b"|") && s.ends_with(b"|")) {')], "expect": ["PANIC@distinfo::Line::from_bytes"]},
 {"id": "paren-starts-with-only", "kind": "break", "edits": [{"patch": "/verif/benign/h5-distinfo-2/patch.diff"}, ("src/distinfo.rs", 'if !(s.starts_with(b"(") && s.ends_with(b")")) {', 'if !s.starts_with(b"(") {')], "expect": ["PANIC@distinfo::Line::from_bytes"]},
]
MUTANTS += [
 {"id": "rebased-position-slice-benign", "kind": "benign", "edits": [{"patch": "/verif/benign/h5-plist-1/patch.diff"}]},
 {"id": "rebased-position-slice-two-past", "kind": "break", "edits": [{"patch": "/verif/benign/h5-plist-1/patch.diff"}, ("src/plist.rs", ".map(|skip| OsStr::from_bytes(&bytes[idx + skip..]))", ".map(|skip| OsStr::from_bytes(&bytes[idx + skip + 2..]))")], "expect": ["PANIC@plist::PlistEntry::from_bytes"]},
 {"id": "rebased-position-slice-from-other-search", "kind": "break", "edits": [{"patch": "/verif/benign/h5-plist-1/patch.diff"}, ("src/plist.rs", "            bytes[idx..]\n                .iter()\n                .position(|c| !c.is_ascii_whitespace())", "            bytes[1..]\n                .iter()\n                .position(|c| !c.is_ascii_whitespace())")], "expect": ["PANIC@plist::PlistEntry::from_bytes"]},
]
MUTANTS += [
 # overflow of arithmetic that is not on sizes: the i32 field counter repaired in /repo, re-introduced; a parsed u64 incremented
 {"id": "regress-field-counter-i32", "kind": "break", "edits": [("src/distinfo.rs", "            let mut field: usize = 0;", "            let mut field = 0;")], "expect": ["PANIC@distinfo::Line::from_bytes", "Overflow(Add)"]},
 {"id": "probe-parsed-size-plus-one", "kind": "break", "edits": [("src/distinfo.rs", "                    Ok(n) => return Line::Size(path, n),", "                    Ok(n) => return Line::Size(path, n + 1),")], "expect": ["PANIC@distinfo::Line::from_bytes", "Overflow(Add)"]},
]
MUTANTS += [
 {"id": "probe-vec-insert-at-computed-index", "kind": "break", "edits": [("src/plist.rs", "                    lines.push((start, idx));", "                    lines.insert(lines.len() + start, (start, idx));")], "expect": ["PANIC@plist::Plist::from_bytes", "insert"]},
 {"id": "probe-to-digit-radix-from-input", "kind": "break", "edits": [("src/pkgname.rs", "            Some((_, v)) => v.parse::<i64>().ok().or(Some(0)),", "            Some((_, v)) => v.chars().next().and_then(|c| c.to_digit(v.len() as u32)).map(i64::from).or_else(|| v.parse::<i64>().ok()).or(Some(0)),")], "expect": ["PANIC@pkgname::PkgName::new"]},
]
MUTANTS += [
 {"id": "enumerated-filtered-fields-benign", "kind": "benign", "edits": [{"patch": "/verif/benign/h7-distinfo-2/patch.diff"}]},
 {"id": "enumerated-fields-filter-dropped", "kind": "break", "edits": [{"patch": "/verif/benign/h7-distinfo-2/patch.diff"}, ("src/distinfo.rs", ".filter(|s| !s.is_empty())", "")], "expect": ["PANIC@distinfo::Line::from_bytes"]},
]
MUTANTS += [
 {"id": "nb-tail-after-matched-prefix-benign", "kind": "benign", "edits": [{"patch": "/verif/benign/h7-dewey-1/patch.diff"}]},
 {"id": "nb-tail-cut-past-matched-prefix", "kind": "break", "edits": [{"patch": "/verif/benign/h7-dewey-1/patch.diff"}, ("src/dewey.rs", "let nbstr = leading_digits(&slice[2..]);", "let nbstr = leading_digits(&slice[3..]);")], "expect": ["PANIC@dewey::DeweyVersion::new"]},
 {"id": "nb-advance-zero-when-no-digits", "kind": "break", "edits": [{"patch": "/verif/benign/h7-dewey-1/patch.diff"}, ("src/dewey.rs", "idx += 2 + nbstr.len();", "idx += nbstr.len() * 2;")], "expect": ["TERM@dewey::DeweyVersion::new"]},

 # bytes[start..idx] under `tstart < idx` alone: start <= tstart has to be the scan loop's invariant
 {"id": "ordered-by-loop-invariant-benign", "kind": "benign", "edits": [{"patch": "/verif/benign/h8-plist-3/patch.diff"}]},
 {"id": "ordered-by-loop-invariant-start-runs-ahead", "kind": "break", "edits": [{"patch": "/verif/benign/h8-plist-3/patch.diff"}, ("src/plist.rs", "                start = idx + 1;\n                tstart = start;", "                start = idx + 2;\n                tstart = idx + 1;")], "expect": ["PANIC"]},
 {"id": "ordered-by-loop-invariant-cursor-moves-back", "kind": "break", "edits": [{"patch": "/verif/benign/h8-plist-3/patch.diff"}, ("src/plist.rs", "                tstart += 1;", "                tstart = tstart.saturating_sub(1);")], "expect": ["PANIC"]},

 # String::with_capacity(bytes.len() * 2) in a private helper whose every caller hands it a digest output
 {"id": "capacity-in-hex-helper-benign", "kind": "benign", "edits": [{"patch": "/verif/benign/h9-digest-1/patch.diff"}]},
 {"id": "capacity-in-hex-helper-overflows", "kind": "break", "edits": [{"patch": "/verif/benign/h9-digest-1/patch.diff"}, ("src/digest.rs", "String::with_capacity(bytes.len() * 2)", "String::with_capacity(usize::MAX - bytes.len())")], "expect": ["PANIC@digest::hex_encode#call:with_capacity"]},

 # bytes[sep..end] in a helper after `sep + 1 >= end` was ruled out
 {"id": "range-after-sum-bound-benign", "kind": "benign", "edits": [{"patch": "/verif/benign/h10-plist-1/patch.diff"}]},
 {"id": "range-after-sum-bound-starts-too-late", "kind": "break", "edits": [{"patch": "/verif/benign/h10-plist-1/patch.diff"}, ("src/plist.rs", "        for c in &bytes[sep..end] {", "        for c in &bytes[sep + 3..end] {")], "expect": ["PANIC@plist::PlistEntry::split_args#call:index"]},
 {"id": "range-after-sum-bound-test-dropped", "kind": "break", "edits": [{"patch": "/verif/benign/h10-plist-1/patch.diff"}, ("src/plist.rs", "        if sep == 0 || sep + 1 >= end {", "        if sep == 0 {")], "expect": ["PANIC@plist::PlistEntry::split_args#call:index"]},
]
