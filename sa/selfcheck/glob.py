"""Cross-cutting benign variants: behaviour-preserving edits of the kind any maintenance commit contains; evaluated against ALL twenty checks."""
ALL = ["src/dewey.rs", "src/pattern.rs", "src/pkgname.rs", "src/pkgpath.rs", "src/depend.rs", "src/summary.rs", "src/plist.rs", "src/distinfo.rs", "src/scanindex.rs", "src/digest.rs", "src/metadata.rs", "src/pkgdb.rs"]
HELPER = "\n#[allow(dead_code)]\nfn verif_unrelated_helper_%d(x: &str) -> usize {\n    let mut n = 0;\n    for c in x.chars() {\n        if c == 'q' {\n            n += 1;\n        }\n    }\n    n\n}\n"
MUTANTS = [
 {"id": "global-add-unrelated-helper-to-every-module", "kind": "benign",
  "edits": [(f, "re:\\Z", HELPER % i) for i, f in enumerate(ALL)]},
 {"id": "global-inline-attributes", "kind": "benign",
  "edits": [("src/dewey.rs", "fn dewey_test(lhs: i64, op: &DeweyOp, rhs: i64) -> bool {", "#[inline]\nfn dewey_test(lhs: i64, op: &DeweyOp, rhs: i64) -> bool {"),
            ("src/pattern.rs", "    fn is_simple_char(c: char) -> bool {", "    #[inline(always)]\n    fn is_simple_char(c: char) -> bool {"),
            ("src/digest.rs", "fn hash_str_internal<D: digest::Digest + std::io::Write>(", "#[inline(never)]\nfn hash_str_internal<D: digest::Digest + std::io::Write>(")]},
 {"id": "global-extra-derives-and-docs", "kind": "benign",
  "edits": [("src/pkgdb.rs", "#[derive(Debug)]\npub enum DBType {", "#[derive(Debug, Clone, Copy, PartialEq, Eq)]\npub enum DBType {"),
            ("src/plist.rs", "#[derive(Debug, Eq, PartialEq)]\npub enum PlistOption {", "#[derive(Clone, Copy, Debug, Eq, PartialEq)]\npub enum PlistOption {"),
            ("src/summary.rs", "#[derive(Clone, Debug)]\npub enum MissingVariable {", "#[derive(Clone, Debug, PartialEq, Eq)]\npub enum MissingVariable {")]},
 {"id": "global-new-public-accessors", "kind": "benign",
  "edits": [("src/dewey.rs", "impl DeweyMatch {", "impl Dewey {\n    /// The package base this pattern applies to.\n    pub fn pkgbase(&self) -> &str {\n        &self.pkgname\n    }\n}\n\nimpl DeweyMatch {"),
            ("src/distinfo.rs", "    /**\n     * Return a [`Vec`] of references to distfile entries, if any.\n     */", "    /// Number of distfile entries.\n    pub fn distfile_count(&self) -> usize {\n        self.distfiles.len()\n    }\n\n    /**\n     * Return a [`Vec`] of references to distfile entries, if any.\n     */"),
            ("src/plist.rs", "    /**\n     * Return bool indicating whether `@option preserve` has been set or not.\n     */", "    /// Number of entries.\n    pub fn len(&self) -> usize {\n        self.entries.len()\n    }\n\n    /**\n     * Return bool indicating whether `@option preserve` has been set or not.\n     */")]},
]
